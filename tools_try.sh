#!/bin/bash
# usage: tools_try.sh <seeded-name> <prop> [extra check args]   -- run one check against a scratch worktree with the seeded change applied (RESULTS.json untouched)
set -u
name=$1; prop=$2; shift 2
wt=$(mktemp -d /tmp/try-XXXXXX); rmdir $wt
git -C /repo worktree add -q --detach $wt HEAD
git -C $wt apply /verif/seeded/$name/patch.diff || { echo "patch does not apply"; git -C /repo worktree remove --force $wt; exit 3; }
cd /verif && PYTHONPATH=$wt ./check $prop --no-evidence --fail-fast "$@" 2>&1 | grep -E "tier=|VIOLATION|obligation=" | cut -c1-400 | head -8
git -C /repo worktree remove --force $wt
