"""Helpers shared by the property modules."""
from vfw.catalogue import by_id, catalogue, select
from vfw.obl import B, BYTE, C, I, Obl, Skip
from vfw.schema import absval, build, mk_type, same
from vfw.streams import substrate


def entry_obl(prefix, fn, e, tier_params=None, extra=None, extra_thorough=None, budget=60, thorough_budget=240, tiers=None, doc=""):
    params = {"sid": C(e.id)}
    params.update(e.params)
    params.update(extra or {})
    th = dict(e.thorough)
    th.update(extra_thorough or {})
    shards = None
    if e.shard:
        lists = []
        for name in e.shard:
            spec = params[name]
            vals = [False, True] if spec[0] == "bool" else list(range(spec[1], spec[2] + 1))
            lists.append([{name: ("const", v)} for v in vals])
        from vfw.obl import product_shards
        shards = product_shards(*lists)
    return Obl(id="%s:%s" % (prefix, e.id), fn=fn, params=params, thorough=th, shards=shards, budget=budget, thorough_budget=thorough_budget,
               tiers=tiers or (("quick", "thorough") if e.id in QUICK_IDS else ("thorough",)), doc=doc or "%s on schema %s" % (prefix, e.t.name))


QUICK_IDS = set(e.id for e in catalogue("quick"))


def all_entries():
    return catalogue("thorough")
