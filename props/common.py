"""Helpers shared by the property modules."""
from vfw.catalogue import by_id, catalogue, select
from vfw.obl import B, BYTE, C, I, Obl, Skip
from vfw.schema import absval, build, mk_type, same
from vfw.streams import substrate


NARROW = {"i0": I(127, 128), "i1": I(0, 1), "i2": I(0, 1), "a1": I(0, 1), "a2": I(127, 128), "a3": I(0, 1), "m": I(1, 2), "e": I(0, 1),
          "c0": I(0x7F, 0x80), "c1": I(0x7F, 0x80), "nb": I(7, 9), "k2": I(0, 1)}


def entry_obl(prefix, fn, e, tier_params=None, extra=None, extra_thorough=None, budget=60, thorough_budget=240, tiers=None, doc="",
              narrow=False, extra_shards=None):
    params = {"sid": C(e.id)}
    params.update(e.params)
    if narrow:
        for k, v in NARROW.items():
            if k in params and params[k][0] == "int":
                lo, hi = max(v[1], params[k][1]), min(v[2], params[k][2])
                if lo <= hi:
                    params[k] = I(lo, hi)
    params.update(extra or {})
    th = {} if narrow else dict(e.thorough)
    th.update(extra_thorough or {})
    shards = None
    if e.shard:
        lists = []
        for name in e.shard:
            spec = params[name]
            vals = [False, True] if spec[0] == "bool" else list(range(spec[1], spec[2] + 1))
            lists.append([{name: ("const", v)} for v in vals])
        from vfw.obl import product_shards
        shards = product_shards(*lists)
    if extra_shards:
        from vfw.obl import product_shards
        shards = product_shards(shards or [{}], extra_shards)
    return Obl(id="%s:%s" % (prefix, e.id), fn=fn, params=params, thorough=th, shards=shards, budget=budget, thorough_budget=thorough_budget,
               tiers=tiers or (("quick", "thorough") if e.id in QUICK_IDS else ("thorough",)), doc=doc or "%s on schema %s" % (prefix, e.t.name))


QUICK_IDS = set(e.id for e in catalogue("quick"))


def all_entries(ber_only=False):
    """Catalogue entries for per-entry obligations.  Entries whose values only BER/CER can carry (feature "ber_only") are left out unless asked for."""
    return [e for e in catalogue("thorough") if ber_only or not e.has("ber_only")]


def promote(obligations, entry_ids):
    """Put the obligations of thorough-only catalogue entries into the quick tier of this property as well."""
    ids = set(entry_ids)
    for o in obligations:
        parts = o.id.split(":")
        if len(parts) >= 2 and parts[-1] in ids:
            o.tiers = ("quick", "thorough")


def demote(obligations, entry_ids, prefixes=None):
    """Move the obligations of the given catalogue entries (optionally only those with the given id prefixes) to the thorough tier only."""
    ids = set(entry_ids)
    for o in obligations:
        parts = o.id.split(":")
        if len(parts) >= 2 and parts[-1] in ids and (prefixes is None or parts[0] in prefixes):
            o.tiers = ("thorough",)
