"""C01 - BER encode/decode round trip under every encoder mode."""
from pyasn1.codec.ber import decoder as ber_decoder
from pyasn1.codec.ber import encoder as ber_encoder

from props.common import *

BOUNDS = ("schemas: catalogue U_Q (quick) / U_T (thorough), see vfw/catalogue.py; integers |n| <= 2^33 (quick) / 2^65 (thorough); "
          "octet/character strings up to 4 symbolic octets; OID arcs < 2^35; BIT STRING lengths 0..10 (0..18) x 3 patterns; "
          "REAL base 2 |m| <= 20, |e| <= 9 (63, 31); defMode symbolic; maxChunkSize symbolic in [0, 2^31)")
OUTSIDE = "REAL from Python floats / base 10; utf-16/utf-32 string contents beyond the corpus; nesting depth > 3; schemas outside the catalogue"


def rt_ber(sid, defMode, chunk, **slots):
    e = by_id(sid)
    av = e.mk(**slots)
    v = build(e.t, av)
    enc = ber_encoder.encode(v, defMode=defMode, maxChunkSize=chunk)
    w, rest = ber_decoder.decode(substrate(enc), asn1Spec=mk_type(e.t))
    if len(rest) != 0:
        return "non-empty remainder"
    if not same(e.t, absval(e.t, w), av):
        return "decoded value differs from the encoded one"
    return None


OBLIGATIONS = [
    entry_obl("rt_ber", rt_ber, e, extra={"defMode": B, "chunk": I(0, 2 ** 31 - 1)})
    for e in all_entries()
]
