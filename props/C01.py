"""C01 - BER encode/decode round trip under every encoder mode."""
from pyasn1.codec.ber import decoder as ber_decoder
from pyasn1.codec.ber import encoder as ber_encoder

from props.common import *

BOUNDS = ("schemas: catalogue U_Q (quick) / U_T (thorough), see vfw/catalogue.py; integers |n| <= 2^33 (quick) / 2^65 (thorough); "
          "octet/character strings up to 4 symbolic octets; OID arcs < 2^35; BIT STRING lengths 0..10 (0..18) x 3 patterns; "
          "REAL base 2 |m| <= 20, |e| <= 9 (63, 31) plus m in {1,3,-5} with e within 2 of +-2^7, +-2^8, +-2^15, +-2^16, +-2^23; defMode symbolic; maxChunkSize symbolic in [0, 2^31); plus payloads of 126..129, 255..257, 65535, 65536 octets in four shapes")
OUTSIDE = "REAL from Python floats / base 10; utf-16/utf-32 string contents beyond the corpus; nesting depth > 3; schemas outside the catalogue"


def rt_ber(sid, defMode, chunk, **slots):
    e = by_id(sid)
    av = e.mk(**slots)
    v = build(e.t, av)
    enc = ber_encoder.encode(v, defMode=defMode, maxChunkSize=chunk)
    w, rest = ber_decoder.decode(substrate(enc), asn1Spec=mk_type(e.t))
    if len(rest) != 0:
        return "non-empty remainder"
    if not same(e.t, absval(e.t, w), av):
        return "decoded value differs from the encoded one"
    return None


LONG = (126, 127, 128, 129, 255, 256, 257, 65535, 65536)


def rt_long(shape, li, x, defMode, chunk):
    """Payloads whose length octets sit on the 127/128, 255/256, 65535/65536 boundaries (content concrete but one symbolic octet)."""
    from vfw.schema import T

    n = LONG[li]
    body = bytes([x]) + bytes([(i * 7 + 3) % 251 for i in range(n - 1)])
    if shape == 0:
        t, av = T("OCTS"), body
    elif shape == 1:
        t, av = T("STR:IA5").tagged(("E", "C", 2)), bytes(b % 128 for b in body)
    elif shape == 2:
        t, av = T("SEQ", comps=[("p", T("OCTS"), "req", None), ("q", T("INT"), "opt", None)]), {"p": body[:n - 4] if n > 4 else body, "q": 5}
    else:
        t, av = T("SEQOF", elem=T("OCTS").tagged(("I", "C", 0))), [body[: n // 2], body[n // 2:]]
    ck = (0, 100, 1000, 2 ** 20)[chunk]
    enc = ber_encoder.encode(build(t, av), defMode=defMode, maxChunkSize=ck)
    w, rest = ber_decoder.decode(substrate(enc), asn1Spec=mk_type(t))
    if len(rest) != 0:
        return "non-empty remainder"
    if not same(t, absval(t, w), av):
        return "decoded value differs from the encoded one"
    return None


OBLIGATIONS = [Obl("rt_long", rt_long, {"shape": I(0, 3), "li": I(0, len(LONG) - 1), "x": I(0, 127), "defMode": B, "chunk": I(0, 3)},
                   shards=[{"shape": C(s_), "li": C(l_)} for s_ in range(4) for l_ in range(len(LONG)) if l_ < 7 or s_ in (0, 3)], budget=150, per_path=100,
                   doc="payload lengths 126..129, 255..257, 65535, 65536 in four shapes; definite/indefinite; maxChunkSize 0/100/1000/2^20")] + [
    entry_obl("rt_ber", rt_ber, e, extra={"defMode": B, "chunk": I(0, 2 ** 31 - 1)})
    for e in all_entries(ber_only=True)
]

# exponent-octet sign boundaries of binary REALs (third sensitivity round): cheap, so also in the quick tier here
promote(OBLIGATIONS, ["real_exp"])
