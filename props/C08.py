"""C08 - malformed input fails cleanly: only library errors, always terminates."""
import io

from pyasn1 import error
from pyasn1.codec.ber import decoder as ber_decoder
from pyasn1.codec.cer import decoder as cer_decoder
from pyasn1.codec.der import decoder as der_decoder
from pyasn1.type import base

from props.common import *
from props.streams_cat import BY_ID, QUICK, STREAMS
from vfw import streams as vs
from vfw.schema import T

ALPHABET = (0x00, 0x01, 0x02, 0x03, 0x04, 0x05, 0x06, 0x09, 0x0C, 0x1F, 0x24, 0x30, 0x31, 0x7F, 0x80, 0x81, 0x82, 0x83, 0x84, 0x9F, 0xA0, 0xBF, 0xFF)
BOUNDS = ("(a) every byte string of length <= 2 (quick) / <= 3 (thorough; <= 4 for the BER one-shot decoder) over the reduced alphabet of %d structural octets, "
          "decoders {BER, CER, DER} x {one-shot, streaming} x {no guiding type, INTEGER, SEQUENCE{a,b?,c=T,d?}, SEQUENCE OF OCTET STRING, CHOICE}; "
          "(b) valid encodings of the stream catalogue with one position (every position) overwritten by a symbolic octet (quick: from the alphabet, thorough: unconstrained), optionally a second position "
          "overwritten by an alphabet octet, or one octet deleted / inserted; (b') the same streams, one octet overwritten from the alphabet or intact, arriving in two chunks on a "
          "non-blocking stream (seekable or behind the caching wrapper) with 1-2 empty polls at a symbolic cut; (c) headers of 16 universal primitive types followed by 0..3 (4) "
          "content octets (unconstrained, or from per-type alphabets where the C-level text codecs enumerate), REAL in every form incl. ISO 6093 text; step bound: number of read() calls <= 8*|input| + 40" % len(ALPHABET))
OUTSIDE = "octet values outside the alphabet in mode (a); more than two damaged positions; inputs longer than the catalogue's"

DECODERS = (ber_decoder, cer_decoder, der_decoder)
GUIDES = [None, T("INT"), None, T("SEQOF", elem=T("OCTS")), None]


def _guide(g):
    from vfw.catalogue import by_id as _b
    if g == 0:
        return None
    if g == 1:
        return mk_type(T("INT"))
    if g == 2:
        return mk_type(_b("seq").t)
    if g == 3:
        return mk_type(T("SEQOF", elem=T("OCTS")))
    return mk_type(_b("choice").t)


def _judge(obj, rest, what):
    if obj is None:
        return "%s returned None as the value" % what
    if not isinstance(obj, base.Asn1Item):
        return "%s returned a %s, not an ASN.1 object" % (what, type(obj).__name__)
    if not obj.isValue:
        return "%s returned a valueless placeholder" % what
    return None


def _decode(dec, streaming, data, spec):
    """Returns None if clean (value or library error), or a description. Other exceptions propagate = failure."""
    n = len(data)
    stream = vs.SymStream(data) if vs.SYMBOLIC else None
    kwargs = {} if spec is None else {"asn1Spec": spec}
    if not streaming:
        sub = stream if vs.SYMBOLIC else bytes(data)
        try:
            obj, rest = DECODERS[dec].decode(sub, **kwargs)
        except error.PyAsn1Error:
            obj = None
        else:
            msg = _judge(obj, rest, "one-shot decode")
            if msg:
                return msg
    else:
        sub = stream if vs.SYMBOLIC else io.BytesIO(bytes(data))
        it = iter(DECODERS[dec].StreamingDecoder(sub, **kwargs))
        steps = 0
        try:
            for obj in it:
                steps += 1
                if isinstance(obj, error.SubstrateUnderrunError):
                    break  # complete input, closed stream: nothing more will come
                msg = _judge(obj, b"", "streaming decode")
                if msg:
                    return msg
                if steps > n + 2:
                    return "streaming decoder yields more objects than input octets"
        except error.PyAsn1Error:
            pass
    if stream is not None and stream.reads > 8 * n + 40:
        return "decoder made %d reads for %d octets of input" % (stream.reads, n)
    return None


def alphabet(dec, streaming, g, n, a0, a1, a2, a3):
    data = bytes([ALPHABET[a0], ALPHABET[a1], ALPHABET[a2], ALPHABET[a3]][:n])
    return _decode(dec, streaming, data, _guide(g))


def template(sid, dec, streaming, guided, pos, x, pos2, a2, how):
    if x < 0:
        x = ALPHABET[-x - 1]  # quick tier: the damaged octet is drawn from the structural alphabet; thorough: any octet
    st = BY_ID[sid]
    g, t, av, enc = st.items[0]
    data = list(enc)
    if pos >= len(data) or pos2 >= len(data):
        raise Skip()
    if how == 0:
        data[pos] = x
    elif how == 1:
        data[pos] = x
        data[pos2] = ALPHABET[a2]
    elif how == 2:
        del data[pos]
    else:
        data.insert(pos, x)
    spec = None
    if guided:
        if g is None:
            raise Skip()
        spec = mk_type(g)
    return _decode(dec, streaming, bytes(data), spec)


def arrival(sid, dec, seekable, pos, x, c1, polls):
    """A catalogue stream with one octet overwritten (x < 0: left intact), arriving in two chunks on a non-blocking stream that is
    polled `polls` times at the cut before the rest arrives: values, underruns or library errors only, bounded number of steps."""
    st = BY_ID[sid]
    data = list(st.data)
    if pos >= len(data) or c1 > len(data):
        raise Skip()
    if x >= 0:
        data[pos] = ALPHABET[x]
    data = bytes(data)
    s = vs.ArrivalStream(data, [c1] * polls, eof_with_last=True, seekable=seekable)
    kwargs = {} if st.spec is None else {"asn1Spec": st.spec}
    it = iter(DECODERS[dec].StreamingDecoder(s, **kwargs))
    steps = 0
    try:
        for obj in it:
            steps += 1
            if steps > len(data) + polls + 6:
                return "no termination in sight: %d steps for %d octets" % (steps, len(data))
            if isinstance(obj, error.SubstrateUnderrunError):
                if not s.advance():
                    break  # everything delivered and closed: nothing more will come
                continue
            msg = _judge(obj, b"", "streaming decode")
            if msg:
                return msg
    except error.PyAsn1Error:
        pass
    return None


NA = len(ALPHABET) - 1
OBLIGATIONS = []
for dec in range(3):
    for streaming in (False, True):
        for g in range(5):
            OBLIGATIONS.append(Obl("alphabet2:d%d:s%d:g%d" % (dec, int(streaming), g), alphabet,
                                   {"dec": C(dec), "streaming": C(streaming), "g": C(g), "n": I(0, 2), "a0": I(0, NA), "a1": I(0, NA), "a2": C(0), "a3": C(0)},
                                   budget=150, doc="every string of <= 2 alphabet octets"))
            OBLIGATIONS.append(Obl("alphabet3:d%d:s%d:g%d" % (dec, int(streaming), g), alphabet,
                                   {"dec": C(dec), "streaming": C(streaming), "g": C(g), "n": C(3), "a0": I(0, NA), "a1": I(0, NA), "a2": I(0, NA), "a3": C(0)},
                                   shards=[{"a0": C(a)} for a in range(NA + 1)], budget=150, thorough_budget=300,
                                   tiers=("quick", "thorough") if (dec == 0 and not streaming and g in (0, 2)) else ("thorough",)))
OBLIGATIONS.append(Obl("alphabet4", alphabet, {"dec": C(0), "streaming": C(False), "g": C(0), "n": C(4), "a0": I(0, NA), "a1": I(0, NA), "a2": I(0, NA), "a3": I(0, NA)},
                       shards=[{"a0": C(a), "a1": C(b_)} for a in range(NA + 1) for b_ in range(NA + 1)], thorough_budget=300, tiers=("thorough",)))
for st in STREAMS:
    if st.id in ("long_len",):
        continue
    _n = len(st.data)
    OBLIGATIONS.append(Obl("arrival:%s" % st.id, arrival, {"sid": C(st.id), "dec": C(0), "seekable": B, "pos": I(0, _n - 1), "x": I(-1, 2), "c1": I(0, _n), "polls": I(1, 2)},
                           thorough={"x": I(-1, NA)}, shards=[{"pos": C(p_)} for p_ in range(_n)], budget=150, thorough_budget=600,
                           tiers=("quick", "thorough") if st.id in ("two_ints_octs",) else ("thorough",),
                           doc="stream %s with one octet overwritten from the alphabet (or intact), arriving in two chunks with 1-2 empty polls at the cut, seekable and not" % st.id))
for st in STREAMS:
    n = len(st.items[0][3])
    for dec in range(3):
        quick = st.id in ("der_seq", "ber_indef_chunked", "choice_expl_indef", "bits_chunked") and dec == 0 or (st.id == "der_seq" and dec == 2) or (st.id == "cer_set" and dec == 1)
        OBLIGATIONS.append(Obl("template:%s:d%d" % (st.id, dec), template,
                               {"sid": C(st.id), "dec": C(dec), "streaming": B, "guided": B, "pos": I(0, n - 1), "x": I(-len(ALPHABET), -1), "pos2": C(0), "a2": C(0), "how": I(0, 3)},
                               thorough={"x": BYTE}, shards=[{"pos": C(p), "how": C(h)} for p in range(n) for h in (0, 2, 3)], budget=150, thorough_budget=300,
                               tiers=("quick", "thorough") if quick else ("thorough",),
                               doc="one octet of %s overwritten by an unconstrained symbolic octet / deleted / inserted, at every position" % st.doc))
        OBLIGATIONS.append(Obl("template2:%s:d%d" % (st.id, dec), template,
                               {"sid": C(st.id), "dec": C(dec), "streaming": C(False), "guided": B, "pos": I(0, n - 1), "x": BYTE, "pos2": I(0, n - 1), "a2": I(0, NA), "how": C(1)},
                               shards=[{"pos": C(p)} for p in range(n)], thorough_budget=400, tiers=("thorough",) if dec == 0 else ()))


# ---- (c) primitive content damage: header of a universal primitive type followed by symbolic content octets ------------
REAL_ALPHABET = tuple(b"01.e-naif +9E_,x") + (0x00, 0x80, 0xFF)  # the first 10 are the quick tier's
UTF_ALPHABET = (0x41, 0x00, 0x7F, 0x80, 0xBF, 0xC0, 0xC3, 0xE2, 0xED, 0xA0, 0xF4, 0x90, 0xFF)
ASCII_ALPHABET = (0x41, 0x00, 0x20, 0x30, 0x7F, 0x80, 0xFF)  # C-level codecs enumerate octets: structural representatives only
WIDE_ALPHABET = (0x00, 0x41, 0xD8, 0xDC, 0xFF, 0x10, 0x11)
BITS_ALPHABET = (0x00, 0x01, 0x55, 0x80, 0xFF)  # BIT STRING contents are enumerated by the engine; the unused-bits octet stays unconstrained  # utf-16 surrogates, utf-32 code points beyond 10FFFF
LEAF_KINDS = (
    # (universal tag, guiding schema, content alphabet or None for any octet)
    (0x01, T("BOOL"), None), (0x02, T("INT"), None), (0x03, T("BITS"), BITS_ALPHABET), (0x05, T("NULL"), None), (0x06, T("OID"), None),
    (0x09, T("REAL"), REAL_ALPHABET), (0x0A, T("ENUM"), None), (0x0C, T("STR:UTF8"), UTF_ALPHABET), (0x16, T("STR:IA5"), ASCII_ALPHABET),
    (0x1E, T("STR:BMP"), WIDE_ALPHABET), (0x1C, T("STR:Universal"), WIDE_ALPHABET), (0x13, T("STR:Printable"), ASCII_ALPHABET), (0x12, T("STR:Numeric"), ASCII_ALPHABET),
    (0x18, T("STR:GeneralizedTime"), ASCII_ALPHABET), (0x17, T("STR:UTCTime"), ASCII_ALPHABET), (0x07, T("STR:ObjectDescriptor"), ASCII_ALPHABET),
)


def leaf(kind, dec, streaming, guided, n, fo, b1, b2, b3):
    """<tag> <n> followed by n content octets: the first one unconstrained, the others from the kind's alphabet (or unconstrained)."""
    tagoct, t, alpha = LEAF_KINDS[kind]
    rest = []
    if alpha is not None and tagoct not in (0x09, 0x03):  # string kinds: every content octet from the alphabet
        if fo >= len(alpha):
            raise Skip()
        fo = alpha[fo]
    for b in (b1, b2, b3):
        if alpha is not None:
            if b >= len(alpha):
                raise Skip()
            b = alpha[b]
        rest.append(b)
    data = bytes([tagoct, n] + ([fo] + rest)[:n])
    return _decode(dec, streaming, data, mk_type(t) if guided else None)


def _guide2(g):
    from pyasn1.type import univ
    from vfw.catalogue import by_id as _b

    return [None, univ.Integer(), univ.OctetString(), univ.Any(), univ.SequenceOf(componentType=univ.Any()), mk_type(_b("seq_any").t), mk_type(_b("seq").t)][g]


def huge_len(dec, streaming, g, tagi, nlen, b0, rest, tail):
    """A TLV whose length field has 4, 8 or 9 octets (around 2^31, 2^63, beyond): first length octet unconstrained, the others all 00 or all FF,
    followed by 0..2 content octets - under guides incl. untagged ANY (which adds the header size to the length before reading)."""
    tagoct = (0x04, 0x30, 0xA0, 0x24)[tagi]
    data = bytes([tagoct, 0x80 + nlen, b0] + [0xFF if rest else 0x00] * (nlen - 1) + [0x02, 0x01][:tail])
    if g == 5:
        data = bytes([0x30, 0x80, 0x02, 0x01, 0x05]) + data
    return _decode(dec, streaming, data, _guide2(g))


OBLIGATIONS.append(Obl("huge_len", huge_len, {"dec": I(0, 2), "streaming": B, "g": I(0, 6), "tagi": I(0, 3), "nlen": I(4, 9), "b0": BYTE, "rest": B, "tail": I(0, 2)},
                       shards=[{"g": C(g_), "nlen": C(n_), "dec": C(0)} for g_ in range(7) for n_ in (4, 8, 9)],
                       thorough_shards=[{"g": C(g_), "nlen": C(n_), "dec": C(d_)} for g_ in range(7) for n_ in (4, 7, 8, 9) for d_ in range(3)], budget=150, thorough_budget=400,
                       doc="length fields of 4/8/9 octets around 2^31, sys.maxsize and beyond under 7 guides incl. untagged ANY and SEQUENCE OF ANY"))
REAL_LENS = (1, 17, 310, 400)
REAL_TAILS = (b"", b".5", b"e-5", b"e400", b"E+9999999")


def real_long(dec, guided, nr, ni, d, z, ti):
    """REAL in ISO 6093 text form whose mantissa has 2..401 digits: d repeated, then z; optional fraction / exponent tail."""
    body = bytes([nr]) + bytes([48 + d]) * REAL_LENS[ni] + bytes([48 + z]) + REAL_TAILS[ti]
    n = len(body)
    data = bytes([0x09, n]) + body if n < 128 else bytes([0x09, 0x82, n // 256, n % 256]) + body
    return _decode(dec, False, data, mk_type(T("REAL")) if guided else None)


OBLIGATIONS.append(Obl("real_long", real_long, {"dec": I(0, 2), "guided": B, "nr": I(1, 3), "ni": I(0, 3), "d": I(0, 9), "z": I(0, 9), "ti": I(0, len(REAL_TAILS) - 1)},
                       shards=[{"nr": C(a_), "ni": C(b_), "dec": C(0)} for a_ in (1, 2, 3) for b_ in (0, 2)],
                       thorough_shards=[{"nr": C(a_), "ni": C(b_), "dec": C(c_)} for a_ in (1, 2, 3) for b_ in range(4) for c_ in range(3)], budget=200, thorough_budget=600,
                       doc="character-form REAL with mantissas of 2..401 digits, with and without fraction/exponent tails"))
for kind in range(len(LEAF_KINDS)):
    _tag, _t, _alpha = LEAF_KINDS[kind]
    _hi = 255 if _alpha is None else len(_alpha) - 1
    for dec in range(3):
        _tiers = ("quick", "thorough") if dec == 0 or _tag in (0x01, 0x0C) else ("thorough",)
        if _tag == 0x09:
            # REAL: the first content octet selects the form (binary / special / ISO 6093 NR1-3); text forms get 3 characters
            OBLIGATIONS.append(Obl("leaf:09:d%d:bin" % dec, leaf,
                                   {"kind": C(kind), "dec": C(dec), "streaming": B, "guided": B, "n": I(0, 3), "fo": BYTE, "b1": I(_hi - 2, _hi), "b2": I(_hi - 2, _hi), "b3": C(0)},
                                   shards=[{"fo": I(0, 0x3F)}, {"fo": I(0x40, 0x7F)}, {"fo": I(0x80, 0xBF)}, {"fo": I(0xC0, 0xFF)}], budget=200, thorough_budget=600, tiers=_tiers,
                                   doc="REAL: every first content octet, then octets from {00, 80, FF}"))
            for _nr in (1, 2, 3):
                OBLIGATIONS.append(Obl("leaf:09:d%d:nr%d" % (dec, _nr), leaf,
                                       {"kind": C(kind), "dec": C(dec), "streaming": C(False), "guided": B, "n": I(2, 4), "fo": C(_nr), "b1": I(0, 9), "b2": I(0, 9), "b3": I(0, 9)},
                                       thorough={"b1": I(0, _hi), "b2": I(0, _hi), "b3": I(0, _hi), "streaming": B},
                                       shards=[{"b1": C(x_)} for x_ in range(10)], thorough_shards=[{"b1": C(x_)} for x_ in range(_hi + 1)],
                                       budget=200, thorough_budget=900, tiers=_tiers,
                                       doc="REAL in ISO 6093 NR%d form with 1..3 characters from the REAL text alphabet" % _nr))
            continue
        _wide = _alpha is WIDE_ALPHABET
        OBLIGATIONS.append(Obl("leaf:%02x:d%d" % (_tag, dec), leaf,
                               {"kind": C(kind), "dec": C(dec), "streaming": B, "guided": B, "n": I(0, 4 if _wide else 3), "fo": BYTE if _alpha is None or _tag == 0x03 else I(0, _hi),
                                "b1": I(0, _hi), "b2": I(0, _hi), "b3": I(0, _hi) if _wide else C(0)},
                               thorough={"n": I(0, 4), "b3": I(0, _hi)}, budget=200, thorough_budget=600, tiers=_tiers,
                               shards=([{"streaming": C(s_), "fo": C(f_)} for s_ in (False, True) for f_ in range(_hi + 1)] if _wide else
                                       [{"streaming": C(False)}, {"streaming": C(True)}] if _alpha is UTF_ALPHABET else
                                       [{"n": C(n_)} for n_ in range(4)] if _tag == 0x03 else None),
                               thorough_shards=([{"streaming": C(s_), "fo": C(f_)} for s_ in (False, True) for f_ in range(_hi + 1)] if _wide else
                                                [{"streaming": C(s_), "fo": C(f_)} for s_ in (False, True) for f_ in range(_hi + 1)] if _alpha is UTF_ALPHABET else
                                                [{"n": C(n_)} for n_ in range(5)] if _tag == 0x03 else None),
                               doc="universal primitive type %02x with 0..3 (4) symbolic content octets" % _tag))
