"""C10 - whatever a decoder accepts is a well-formed, re-encodable value of the type."""
from pyasn1 import error
from pyasn1.codec.ber import decoder as ber_decoder
from pyasn1.codec.cer import decoder as cer_decoder
from pyasn1.codec.der import decoder as der_decoder
from pyasn1.codec.der import encoder as der_encoder
from pyasn1.type import constraint, namedtype, tag, univ

from props.common import *
from vfw import x690ref as R
from vfw.schema import T

BOUNDS = ("constrained types: types derived by narrowing a union with one of its alternatives; untagged CHOICE members located by tag; SEQUENCE/SET {a, b?, c?} (WITH COMPONENTS {b PRESENT, c ABSENT}); BIT STRING SIZE (2..4) (two decodes in a row); INTEGER (0..10); INTEGER (0..20) EXCEPT (3..5 | 11..13 | 18); INTEGER (0..2 | 7 | 9 | 15..16); OCTET STRING SIZE (1..2); SEQUENCE OF INTEGER (0..10) SIZE (1..2); SET OF likewise; SEQUENCE {a INTEGER (0..10), b OCTET STRING SIZE (1..2) "
          "OPTIONAL, c BOOLEAN DEFAULT FALSE}; SET {a, b?} ; inputs = reference encodings of a neighbouring, unconstrained type with symbolic slots (values -2..12, lengths 0..3, "
          "0..3 elements, members missing / repeated / extra / permuted, definite and indefinite length), decoders BER/CER/DER")
OUTSIDE = "constraint kinds other than value range, exclusion/union, size, mandatory presence and WITH COMPONENTS presence/absence; deeper nesting"

VR = constraint.ValueRangeConstraint(0, 10)
SZ = constraint.ValueSizeConstraint(1, 2)
I_C = univ.Integer().subtype(subtypeSpec=VR)
O_C = univ.OctetString().subtype(subtypeSpec=SZ)
L_C = univ.SequenceOf(componentType=I_C).subtype(subtypeSpec=SZ)
M_C = univ.SetOf(componentType=I_C).subtype(subtypeSpec=SZ)
S_C = univ.Sequence(componentType=namedtype.NamedTypes(namedtype.NamedType("a", I_C), namedtype.OptionalNamedType("b", O_C), namedtype.DefaultedNamedType("c", univ.Boolean(False))))
E_C = univ.Set(componentType=namedtype.NamedTypes(namedtype.NamedType("a", I_C), namedtype.OptionalNamedType("b", O_C)))

DECODERS = (ber_decoder, cer_decoder, der_decoder)

N_INT, N_OCTS, N_BOOL, N_NULL = T("INT"), T("OCTS"), T("BOOL"), T("NULL")


class _Indef(R.Choices):
    def __init__(self, on):
        self.on = on

    def indef(self, t, level):
        return self.on and level == 0


def _after(spec, w, wt_msg):
    """Common tail: the accepted value must be well-typed (wt_msg None), re-encodable and a fixpoint."""
    if wt_msg:
        return "decoder accepted an ill-typed value: " + wt_msg
    try:
        enc2 = der_encoder.encode(w)
    except error.PyAsn1Error:
        return "the library's own encoder refuses the value the decoder returned"
    w2, rest = der_decoder.decode(substrate(enc2), asn1Spec=spec)
    if len(rest) != 0:
        return "re-encoding leaves a remainder"
    if der_encoder.encode(w2) != enc2:
        return "decode(encode(result)) is not a fixpoint"
    return None


def _try(dec, octets, spec):
    try:
        w, rest = DECODERS[dec].decode(substrate(octets), asn1Spec=spec)
    except error.PyAsn1Error:
        return None
    return w


def scalar_int(dec, v):
    w = _try(dec, bytes(R.der(N_INT, v)), I_C)
    if w is None:
        return None
    return _after(I_C, w, None if 0 <= int(w) <= 10 else "INTEGER %s outside (0..10)" % int(w))


# INTEGER (0..20) EXCEPT (3..5 | 11..13), and a union of a range with single values
X_C = univ.Integer().subtype(subtypeSpec=constraint.ConstraintsIntersection(
    constraint.ValueRangeConstraint(0, 20), constraint.ConstraintsExclusion(constraint.ValueRangeConstraint(3, 5), constraint.ValueRangeConstraint(11, 13), constraint.SingleValueConstraint(18))))
U_C = univ.Integer().subtype(subtypeSpec=constraint.ConstraintsUnion(constraint.ValueRangeConstraint(0, 2), constraint.SingleValueConstraint(7, 9), constraint.ValueRangeConstraint(15, 16)))


def scalar_excl(dec, v, nested):
    spec = X_C
    octets = bytes(R.der(N_INT, v))
    if nested:
        spec = univ.Sequence(componentType=namedtype.NamedTypes(namedtype.NamedType("slot", X_C), namedtype.OptionalNamedType("u", U_C)))
        octets = bytes(R.der(T("SEQ", comps=[("slot", N_INT, "req", None), ("u", N_INT, "req", None)]), {"slot": v, "u": v}))
    w = _try(dec, octets, spec)
    if w is None:
        return None
    ok_x = 0 <= v <= 20 and not (3 <= v <= 5) and not (11 <= v <= 13) and v != 18
    ok_u = 0 <= v <= 2 or v in (7, 9) or 15 <= v <= 16
    if nested:
        return _after(spec, w, None if (ok_x and ok_u) else "INTEGER %d accepted although excluded by the component's constraint" % v)
    return _after(spec, w, None if ok_x else "INTEGER %d accepted although (0..20) EXCEPT (3..5 | 11..13 | 18) excludes it" % v)


def bits_twice(dec, n1, n2, v, nested):
    """Two BIT STRING encodings with the same number but different lengths decoded one after the other under ONE size-constrained type."""
    F = univ.BitString().subtype(subtypeSpec=constraint.ValueSizeConstraint(2, 4))
    spec = univ.Sequence(componentType=namedtype.NamedTypes(namedtype.NamedType("flags", F))) if nested else F
    if v >= 2 ** n1 or v >= 2 ** n2:
        raise Skip()
    N_BITS = T("BITS")
    nt = T("SEQ", comps=[("flags", N_BITS, "req", None)])
    for n in (n1, n2):
        octets = bytes(R.der(nt, {"flags": (n, v)}) if nested else R.der(N_BITS, (n, v)))
        w = _try(dec, octets, spec)
        if w is None:
            continue
        got = w["flags"] if nested else w
        msg = _after(spec, w, None if 2 <= len(got) <= 4 else "BIT STRING of %d bits under SIZE (2..4)" % len(got))
        if msg:
            return msg
    return None


# derivation: Port ::= INTEGER (0 | 10..20); Unpriv ::= Port (10..20); Batch ::= SEQUENCE (SIZE (1..2 | 4)) OF INTEGER; Small ::= Batch (SIZE (1..2))
_PORT = univ.Integer().subtype(subtypeSpec=constraint.ConstraintsUnion(constraint.SingleValueConstraint(0), constraint.ValueRangeConstraint(10, 20)))
D_C = _PORT.subtype(subtypeSpec=constraint.ValueRangeConstraint(10, 20))
_BATCH = univ.SequenceOf(componentType=univ.Integer()).subtype(subtypeSpec=constraint.ConstraintsUnion(constraint.ValueSizeConstraint(1, 2), constraint.ValueSizeConstraint(4, 4)))
B_C = _BATCH.subtype(subtypeSpec=constraint.ValueSizeConstraint(1, 2))
# SET { a INTEGER (0..10), id CHOICE { n [1] INTEGER, b [2] BOOLEAN } } and SEQUENCE { x INTEGER OPTIONAL, id CHOICE .. }: the slot must hold the CHOICE type
_IDCH = univ.Choice(componentType=namedtype.NamedTypes(
    namedtype.NamedType("n", univ.Integer().subtype(implicitTag=tag.Tag(tag.tagClassContext, tag.tagFormatSimple, 1))),
    namedtype.NamedType("b", univ.Boolean().subtype(implicitTag=tag.Tag(tag.tagClassContext, tag.tagFormatSimple, 2)))))
CS_SET = univ.Set(componentType=namedtype.NamedTypes(namedtype.NamedType("a", I_C), namedtype.NamedType("id", _IDCH)))
CS_SEQ = univ.Sequence(componentType=namedtype.NamedTypes(namedtype.OptionalNamedType("x", univ.Integer()), namedtype.NamedType("id", _IDCH)))
CS_CH = univ.Choice(componentType=namedtype.NamedTypes(namedtype.NamedType("id", _IDCH), namedtype.NamedType("o", univ.OctetString())))


def derived(dec, v, k, indef):
    """Types derived by narrowing a union constraint with one of its own alternatives."""
    w = _try(dec, bytes(R.der(N_INT, v)), D_C)
    if w is not None:
        msg = _after(D_C, w, None if 10 <= v <= 20 else "INTEGER %d accepted by Port (10..20)" % v)
        if msg:
            return msg
    nt = T("SEQOF", elem=N_INT)
    octets = bytes(R.ber_nd(nt, [1, 2, 3, 4, 5][:k], _Indef(indef)))
    if dec == 2 and indef:
        return None
    w = _try(dec, octets, B_C)
    if w is not None:
        return _after(B_C, w, None if 1 <= k <= 2 else "%d elements accepted by Batch (SIZE (1..2))" % k)
    return None


def choice_slot(dec, shape, hx, alt, v, indef):
    """An untagged CHOICE member located by tag (SET member, after an absent OPTIONAL member, CHOICE in CHOICE): the slot holds the CHOICE type."""
    inner_t = T("CHOICE", comps=[("n", N_INT.tagged(("I", "C", 1)), "req", None), ("b", N_BOOL.tagged(("I", "C", 2)), "req", None)])
    iav = ("n", v) if alt == 0 else ("b", v % 2 == 1)
    if shape == 0:
        spec, nt, av = CS_SET, T("SET", comps=[("a", N_INT, "req", None), ("id", inner_t, "req", None)]), {"a": 5, "id": iav}
    elif shape == 1:
        spec, nt = CS_SEQ, T("SEQ", comps=[("x", N_INT, "opt", None), ("id", inner_t, "req", None)])
        av = {"id": iav}
        if hx:
            av["x"] = 7
    else:
        spec, nt, av = CS_CH, T("CHOICE", comps=[("id", inner_t, "req", None), ("o", N_OCTS, "req", None)]), ("id", iav)
    octets = bytes(R.ber_nd(nt, av, _Indef(indef)))
    if dec == 2 and indef:
        raise Skip()
    w = _try(dec, octets, spec)
    if w is None:
        return "a valid encoding was rejected"
    slot = w.getComponent() if shape == 2 else w["id"]
    msg = None
    if not isinstance(slot, univ.Choice):
        msg = "member id holds a %s where the type declares a CHOICE" % type(slot).__name__
    elif slot.getName() != iav[0]:
        msg = "wrong alternative"
    return _after(spec, w, msg)


def scalar_octs(dec, n, o0, o1, o2):
    w = _try(dec, bytes(R.der(N_OCTS, bytes([o0, o1, o2][:n]))), O_C)
    if w is None:
        return None
    return _after(O_C, w, None if 1 <= len(w) <= 2 else "OCTET STRING of %d octets under SIZE (1..2)" % len(w))


def listof(dec, setof, indef, k, v0, v1, v2):
    nt = T("SETOF" if setof else "SEQOF", elem=N_INT)
    vals = [v0, v1, v2][:k]
    octets = bytes(R.ber_nd(nt, vals, _Indef(indef)))
    spec = M_C if setof else L_C
    if dec == 2 and indef:
        raise Skip()
    w = _try(dec, octets, spec)
    if w is None:
        return None
    msg = None
    if not w.isValue:
        msg = "not a value"
    elif not (1 <= len(w) <= 2):
        msg = "%d elements under SIZE (1..2)" % len(w)
    else:
        for i in range(len(w)):
            x = int(w[i])
            if not (0 <= x <= 10):
                msg = "element %s outside (0..10)" % x
    return _after(spec, w, msg)


def record(dec, indef, ha, a, hb, bn, b0, hc, c, dup, extra, swap):
    """members of a neighbouring SEQUENCE written by hand: a? b? c? with repetition, an extra NULL member and a swap."""
    parts = []
    if ha:
        parts.append(R.der(N_INT, a))
    if hb:
        parts.append(R.der(N_OCTS, bytes([b0, b0, b0][:bn])))
    if hc:
        parts.append(R.der(N_BOOL, c))
    if dup and parts:
        parts.append(parts[0])
    if extra:
        parts.append(R.der(N_NULL, None))
    if swap and len(parts) >= 2:
        parts[0], parts[1] = parts[1], parts[0]
    content = []
    for p in parts:
        content += p
    octets = bytes(R.tlv_indef("U", 16, content) if indef else R.tlv("U", 16, True, content))
    if dec == 2 and indef:
        raise Skip()
    w = _try(dec, octets, S_C)
    if w is None:
        return None
    msg = None
    ca = w.getComponentByName("a", default=None, instantiate=False)
    cb = w.getComponentByName("b", default=None, instantiate=False)
    if not w.isValue:
        msg = "not a value"
    elif ca is None:
        msg = "mandatory member a missing"
    elif not (0 <= int(ca) <= 10):
        msg = "a = %s outside (0..10)" % int(ca)
    elif not isinstance(ca, univ.Integer):
        msg = "a has the wrong type"
    elif cb is not None and not (1 <= len(cb) <= 2):
        msg = "b has %d octets under SIZE (1..2)" % len(cb)
    elif dup or extra or (swap and len(parts) >= 2 and parts[0] != parts[1]):
        # the encoding is not an encoding of the SEQUENCE type at all (repeated / unknown / out-of-order member)
        msg = "an encoding with a repeated, unknown or out-of-order member was accepted"
    return _after(S_C, w, msg)


# SEQUENCE/SET { a INTEGER (0..10), b OCTET STRING OPTIONAL, c BOOLEAN OPTIONAL } (WITH COMPONENTS { ..., b PRESENT, c ABSENT })
_PC_NT = namedtype.NamedTypes(namedtype.NamedType("a", I_C), namedtype.OptionalNamedType("b", univ.OctetString()), namedtype.OptionalNamedType("c", univ.Boolean()))
_PC_SPEC = constraint.WithComponentsConstraint(("b", constraint.ComponentPresentConstraint()), ("c", constraint.ComponentAbsentConstraint()))
P_SEQ = univ.Sequence(componentType=_PC_NT).subtype(subtypeSpec=_PC_SPEC)
P_SET = univ.Set(componentType=_PC_NT).subtype(subtypeSpec=_PC_SPEC)


def presence(dec, is_set, indef, a, hb, hc, c, nested):
    """Component-presence constraints: b PRESENT, c ABSENT; the record also as a member of an outer SEQUENCE."""
    kind = "SET" if is_set else "SEQ"
    nt = T(kind, comps=[("a", N_INT, "req", None), ("b", N_OCTS, "opt", None), ("c", N_BOOL, "opt", None)])
    av = {"a": a}
    if hb:
        av["b"] = b"k"
    if hc:
        av["c"] = c
    spec = P_SET if is_set else P_SEQ
    if nested:
        nt = T("SEQ", comps=[("r", nt, "req", None), ("z", N_INT, "opt", None)])
        av = {"r": av, "z": 1}
        spec = univ.Sequence(componentType=namedtype.NamedTypes(namedtype.NamedType("r", spec), namedtype.OptionalNamedType("z", univ.Integer())))
    octets = bytes(R.ber_nd(nt, av, _Indef(indef)))
    if dec == 2 and indef:
        raise Skip()
    w = _try(dec, octets, spec)
    if w is None:
        return None
    msg = None
    if not (0 <= a <= 10):
        msg = "a = %d outside (0..10)" % a
    elif not hb:
        msg = "member b is absent although WITH COMPONENTS says PRESENT"
    elif hc:
        msg = "member c is present although WITH COMPONENTS says ABSENT"
    return _after(spec, w, msg)


def setrec(dec, indef, ha, a, hb, bn, b0, dup, extra, swap):
    parts = []
    if ha:
        parts.append(R.der(N_INT, a))
    if hb:
        parts.append(R.der(N_OCTS, bytes([b0, b0, b0][:bn])))
    if dup and parts:
        parts.append(parts[-1])
    if extra:
        parts.append(R.der(N_NULL, None))
    if swap and len(parts) >= 2:
        parts[0], parts[1] = parts[1], parts[0]
    content = []
    for p in parts:
        content += p
    octets = bytes(R.tlv_indef("U", 17, content) if indef else R.tlv("U", 17, True, content))
    if dec == 2 and indef:
        raise Skip()
    w = _try(dec, octets, E_C)
    if w is None:
        return None
    msg = None
    ca = w.getComponentByName("a", default=None, instantiate=False)
    cb = w.getComponentByName("b", default=None, instantiate=False)
    if not w.isValue:
        msg = "not a value"
    elif ca is None:
        msg = "mandatory member a missing"
    elif not (0 <= int(ca) <= 10):
        msg = "a = %s outside (0..10)" % int(ca)
    elif cb is not None and not (1 <= len(cb) <= 2):
        msg = "b has %d octets under SIZE (1..2)" % len(cb)
    elif dup or extra:
        msg = "a SET encoding with a repeated or unknown member was accepted"
    return _after(E_C, w, msg)


V = I(-2, 12)
OBLIGATIONS = [
    Obl("derived", derived, {"dec": I(0, 2), "v": I(-1, 21), "k": I(0, 5), "indef": B}, thorough={"v": I(-2 ** 33, 2 ** 33)}, shards=[{"dec": C(d_)} for d_ in range(3)], budget=120,
        doc="INTEGER (0 | 10..20) narrowed by (10..20); SEQUENCE (SIZE (1..2 | 4)) OF narrowed by SIZE (1..2): accepted => inside the narrowed set"),
    Obl("choice_slot", choice_slot, {"dec": I(0, 2), "shape": I(0, 2), "hx": B, "alt": I(0, 1), "v": I(0, 3), "indef": B}, thorough={"v": I(-2 ** 33, 2 ** 33)}, shards=[{"dec": C(d_), "shape": C(s_)} for d_ in range(3) for s_ in range(3)],
        budget=90, doc="untagged CHOICE members located by tag keep their declared type in the decoded value"),
    Obl("presence", presence, {"dec": I(0, 2), "is_set": B, "indef": B, "a": I(-1, 11), "hb": B, "hc": B, "c": B, "nested": B}, thorough={"a": I(-2 ** 33, 2 ** 33)},
        shards=[{"dec": C(d_), "is_set": C(s_)} for d_ in range(3) for s_ in (False, True)], budget=120,
        doc="SEQUENCE/SET with WITH COMPONENTS (b PRESENT, c ABSENT), top level and nested, definite/indefinite: accepted => the presence constraints hold"),
    Obl("bits_twice", bits_twice, {"dec": I(0, 2), "n1": I(0, 6), "n2": I(0, 6), "v": I(0, 3), "nested": B}, thorough={"n1": I(0, 10), "n2": I(0, 10), "v": I(0, 15)}, shards=[{"dec": C(d_)} for d_ in range(3)], budget=120,
        doc="BIT STRING SIZE (2..4): two encodings with the same number and different lengths decoded in a row under one type object"),
    Obl("scalar_excl", scalar_excl, {"dec": I(0, 2), "v": I(-3, 23), "nested": B}, thorough={"v": I(-2 ** 33, 2 ** 33)}, budget=90,
        doc="INTEGER (0..20) EXCEPT (3..5 | 11..13 | 18) and a union constraint, at top level and as SEQUENCE members: accepted => inside the set-theoretic denotation"),
    Obl("scalar_int", scalar_int, {"dec": I(0, 2), "v": I(-300, 300)}, thorough={"v": I(-2 ** 65, 2 ** 65)}, budget=60),
    Obl("scalar_octs", scalar_octs, {"dec": I(0, 2), "n": I(0, 3), "o0": BYTE, "o1": BYTE, "o2": BYTE}, budget=60),
    Obl("listof", listof, {"dec": I(0, 2), "setof": B, "indef": B, "k": I(0, 3), "v0": V, "v1": V, "v2": V},
        shards=[{"dec": C(d), "setof": C(s)} for d in range(3) for s in (False, True)], budget=120),
    Obl("record", record, {"dec": I(0, 2), "indef": B, "ha": B, "a": V, "hb": B, "bn": I(0, 3), "b0": C(65), "hc": B, "c": B, "dup": B, "extra": B, "swap": B},
        shards=[{"dec": C(d), "indef": C(i)} for d in range(3) for i in (False, True)], budget=120),
    Obl("setrec", setrec, {"dec": I(0, 2), "indef": B, "ha": B, "a": V, "hb": B, "bn": I(0, 3), "b0": C(65), "dup": B, "extra": B, "swap": B},
        shards=[{"dec": C(d), "indef": C(i)} for d in range(3) for i in (False, True)], budget=120),
]
