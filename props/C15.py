"""C15 - DER/CER decoders enforce the canonical restrictions they implement, everywhere."""
from pyasn1 import error
from pyasn1.codec.cer import decoder as cer_decoder
from pyasn1.codec.der import decoder as der_decoder

from props.common import *
from vfw import x690ref as R

BOUNDS = ("catalogue U_Q/U_T (narrowed value slots); exactly one non-canonical rewrite of the DER encoding, applied by the reference writer at "
          "a symbolic element index 0..5: (0) definite -> indefinite length of a constructed element or EXPLICIT wrapper, (1) primitive -> "
          "segmented string (split point symbolic) for every string type in the schema, (2) TRUE octet FF -> x in [1, 254]; DER decoder for all "
          "three, CER decoder for (2); with and without the guiding type")
OUTSIDE = "more than one rewrite per encoding; element indices beyond 5"


class OneRewrite(R.Choices):
    def __init__(self, kind, pos, x, sp):
        self.kind, self.pos, self.x, self.sp = kind, pos, x, sp
        self.count = 0
        self.applied = False

    def _hit(self):
        hit = self.count == self.pos
        self.count += 1
        if hit:
            self.applied = True
        return hit

    def indef(self, t, level):
        if self.kind != 0:
            return False
        return self._hit()

    def segments(self, t, content):
        if self.kind != 1:
            return None
        if not self._hit():
            return None
        c = list(content)
        if t.kind == "BITS":
            unused, data = c[0], c[1:]
            if self.sp == 3:
                return [] if (not data and not unused) else [c]
            sp = min(self.sp, len(data))
            if unused and sp == len(data):
                sp = len(data) - 1
            return [[0] + data[:sp], [unused] + data[sp:]]
        if self.sp == 3:
            return [c] if c else []  # constructed form with no segment at all (empty string) / a single segment
        sp = min(self.sp, len(c))
        return [c[:sp], c[sp:]]

    def true_octet(self):
        if self.kind != 2:
            return 255
        if self._hit():
            return self.x
        return 255


def _rejects(decoder, enc, spec):
    try:
        if spec is None:
            decoder.decode(substrate(enc))
        else:
            decoder.decode(substrate(enc), asn1Spec=spec)
    except error.PyAsn1Error:
        return True
    return False


def rewrite(sid, kind, pos, x, sp, with_spec, **slots):
    e = by_id(sid)
    av = e.mk(**slots)
    ch = OneRewrite(kind, pos, x, sp)
    enc = bytes(R.ber_nd(e.t, av, ch))
    if not ch.applied:
        raise Skip()
    spec = mk_type(e.t) if with_spec else None
    if not _rejects(der_decoder, enc, spec):
        return "DER decoder accepted a non-canonical encoding (rewrite kind %s at element %s)" % (kind, pos)
    if kind == 2 and not _rejects(cer_decoder, enc, spec):
        return "CER decoder accepted BOOLEAN contents other than 00/FF"
    return None


def _self_describing(t):
    from vfw.findings_lib import _walk

    return all(all(m == "E" for (m, _c, _n) in n.tags) for n in _walk(t))


def _applicable(t):
    from vfw.findings_lib import _walk

    nodes = list(_walk(t))
    k0 = any(n.constructed_content() or n.kind == "CHOICE" and n.tags or any(m == "E" for (m, _c, _x) in n.tags) for n in nodes)
    k1 = any(n.kind in ("OCTS", "BITS") or n.is_str for n in nodes)
    k2 = any(n.kind == "BOOL" for n in nodes)
    return [k for k, ok in ((0, k0), (1, k1), (2, k2)) if ok]


OBLIGATIONS = []
for e in all_entries():
    kinds = _applicable(e.t)
    specs = (True, False) if _self_describing(e.t) else (True,)  # IMPLICIT tags cannot be decoded without the type at all
    sh = [{"kind": C(k), "with_spec": C(w)} for k in kinds for w in specs]
    if not sh:
        continue
    OBLIGATIONS.append(entry_obl("rewrite", rewrite, e, extra={"kind": I(0, 2), "pos": I(0, 5), "x": I(1, 254), "sp": I(0, 3), "with_spec": B},
                                 narrow=True, budget=90, extra_shards=sh))

# quick tier: entries added for other properties' sake run in the thorough tier only here
demote(OBLIGATIONS, ['seq_optc', 'seq_hitags', 'seq_wide', 'seqof_choice_cons', 'choice_cons'])
demote(OBLIGATIONS, ['set_optc', 'seq_defl', 'seq_any_def'])
