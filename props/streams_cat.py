"""Concrete stream catalogue for C05/C06/C11/C12: encodings built by the real encoders from fixed values."""
from pyasn1.codec.ber import encoder as ber_encoder
from pyasn1.codec.cer import encoder as cer_encoder
from pyasn1.codec.der import encoder as der_encoder

from vfw.catalogue import by_id
from vfw.schema import T, build, mk_type

_seq = by_id("seq")
_set = by_id("set_mixed")
_sof = T("SEQOF", elem=T("OCTS"))
_choiceE = by_id("choice.E")
_bits = T("BITS")
_hi = T("INT").tagged(("I", "A", 16384))
_nest = by_id("seq_nest")
_e40 = T("INT").tagged(("E", "C", 40))
_e100 = T("INT").tagged(("E", "C", 100))
_e40o = T("OCTS").tagged(("E", "C", 16384))

V_SEQ = {"a": 5, "b": b"xy", "c": False, "d": "Ж".encode("utf-8")}
V_SET = {"a": 300, "b": b"q", "d": ("y", (1, 3, 6, 1, 4, 1, 99999)), "e": -2}
V_SOF = [b"quick", b"", b"brown fox"]
V_NEST = {"h": 1, "l": [1, 2], "s": {"a": 7, "b": b"z"}, "t": {"a": 9, "c": False}}


class S(object):
    def __init__(self, id, items, doc):
        self.id = id
        self.items = items  # list of (T or None as guide, T used to read the value, abstract value, encoding)
        self.doc = doc
        self.data = b"".join(i[3] for i in items)

    @property
    def spec(self):
        g = self.items[0][0]
        return None if g is None else mk_type(g)


def _item(t, av, enc, guided=True):
    return (t if guided else None, t, av, enc)


def _ber(t, av, **kw):
    return ber_encoder.encode(build(t, av), **kw)


STREAMS = [
    S("der_seq", [_item(_seq.t, V_SEQ, der_encoder.encode(build(_seq.t, V_SEQ)))], "DER SEQUENCE with OPTIONAL/DEFAULT/[0] IMPLICIT members"),
    S("ber_indef_chunked", [_item(_sof, V_SOF, _ber(_sof, V_SOF, defMode=False, maxChunkSize=4))], "indefinite SEQUENCE OF chunked OCTET STRINGs"),
    S("cer_set", [_item(_set.t, V_SET, cer_encoder.encode(build(_set.t, V_SET)))], "CER SET with untagged CHOICE and IMPLICIT member"),
    S("two_ints_octs", [_item(T("INT"), 300, _ber(T("INT"), 300), False), _item(T("OCTS"), b"abc", _ber(T("OCTS"), b"abc"), False),
                        _item(T("NULL"), None, _ber(T("NULL"), None), False)], "three schemaless items back to back"),
    S("long_len", [_item(T("OCTS"), bytes(range(130)), _ber(T("OCTS"), bytes(range(130))))], "long-form length (81 82)"),
    S("bits_chunked", [_item(_bits, (21, 0x155555), _ber(_bits, (21, 0x155555), defMode=False, maxChunkSize=1))], "indefinite chunked BIT STRING"),
    S("choice_expl_indef", [_item(_choiceE.t, ("y", b"hi"), _ber(_choiceE.t, ("y", b"hi"), defMode=False))] * 2, "explicitly tagged CHOICE, indefinite, twice"),
    S("hi_tag", [_item(_hi, -70000, _ber(_hi, -70000))], "[APPLICATION 16384] IMPLICIT INTEGER"),
    S("hi_tags_x3", [_item(_e40, 5, _ber(_e40, 5), False), _item(_e100, 7, _ber(_e100, 7), False), _item(_e40o, b"hi", _ber(_e40o, b"hi"), False)],
      "three schemaless items under different long-form EXPLICIT tags of one class"),
    S("nest_indef", [_item(_nest.t, V_NEST, _ber(_nest.t, V_NEST, defMode=False))], "nested SEQUENCE / SEQUENCE OF / [7] EXPLICIT SET, all indefinite"),
    S("der_seq_x2", [_item(_seq.t, V_SEQ, der_encoder.encode(build(_seq.t, V_SEQ))), _item(_seq.t, {"a": 0}, der_encoder.encode(build(_seq.t, {"a": 0})))], "two guided DER SEQUENCEs"),
]
BY_ID = dict((s.id, s) for s in STREAMS)
QUICK = ["der_seq", "ber_indef_chunked", "cer_set", "two_ints_octs", "bits_chunked", "choice_expl_indef", "hi_tag", "der_seq_x2", "hi_tags_x3"]
