"""C06 - truncated input is reported as insufficient data at every cut point."""
import io

from pyasn1 import error
from pyasn1.codec.ber import decoder as ber_decoder
from pyasn1.codec.cer import decoder as cer_decoder
from pyasn1.codec.der import decoder as der_decoder

from props.common import *
from props.streams_cat import BY_ID, QUICK, STREAMS
from vfw import streams as vs

BOUNDS = ("encodings: the single-item prefixes of props/streams_cat.py (BER definite/indefinite/chunked, CER, DER; guided and schemaless) plus catalogue "
          "encodings with symbolic values; every cut k in [0, |e|) (symbolic, forked per value); presentations: bytes, seekable stream ending at k, "
          "non-blocking stream closed after octet k (seekable and non-seekable); decoders BER/CER/DER")
OUTSIDE = "encodings outside the catalogues; cuts in the middle of a stream with several items"


def _first_item(st):
    g, t, av, enc = st.items[0]
    return (None if g is None else mk_type(g)), enc


def oneshot(sid, k, with_spec, how):
    st = BY_ID[sid]
    spec, enc = _first_item(st)
    if k >= len(enc) or k < 0:
        raise Skip()
    if not with_spec:
        if spec is not None and st.id not in SCHEMALESS_OK:
            raise Skip()
        spec = None
    prefix = enc[:k]
    if how == 0:
        sub = prefix if not vs.SYMBOLIC else vs.SymStream(prefix)
    elif how == 1:
        sub = io.BytesIO(bytes(prefix)) if not vs.SYMBOLIC else vs.SymStream(prefix)
    else:
        sub = vs.ArrivalStream(enc, [k], eof_with_last=True)
        sub._total = k
        sub._closed = True
    try:
        ber_decoder.decode(sub, asn1Spec=spec) if spec is not None else ber_decoder.decode(sub)
    except error.SubstrateUnderrunError:
        return None
    except error.PyAsn1Error as e:
        return "proper prefix reported as malformed: %s" % type(e).__name__
    return "a value was returned for a proper prefix"


def oneshot_cat(sid, codec, defMode, chunk, cut, **slots):
    """Catalogue values (symbolic) through each codec; prefix presented as bytes-like."""
    from props.C07 import _decoder, _encode

    e = by_id(sid)
    av = e.mk(**slots)
    enc = _encode(codec, build(e.t, av), defMode, chunk)
    if cut >= len(enc):
        raise Skip()
    prefix = enc[:cut]
    try:
        _decoder(codec).decode(substrate(prefix), asn1Spec=mk_type(e.t))
    except error.SubstrateUnderrunError:
        return None
    except error.PyAsn1Error as ex:
        return "proper prefix reported as malformed: %s" % type(ex).__name__
    return "a value was returned for a proper prefix"


def streaming(sid, k, seekable, strict_close, polls=1):
    """Stream that delivers k octets, stays open for `polls` polls, then is closed by the writer."""
    st = BY_ID[sid]
    spec, enc = _first_item(st)
    if k >= len(enc):
        raise Skip()
    stream = vs.ArrivalStream(enc[:k], [k], eof_with_last=False, seekable=seekable)
    it = iter(ber_decoder.StreamingDecoder(stream, asn1Spec=spec))
    # phase 1: open stream -> only underrun objects, however often it is polled
    for _poll in range(polls):
        try:
            o = next(it)
        except StopIteration:
            if k == 0:
                # nothing arrived and nothing can be said yet: stopping here would mean "clean end of stream" while it is still open
                return "iteration stopped while the stream was still open"
            return "iteration stopped on a truncated item"
        except error.PyAsn1Error as e:
            return "error %s raised while the stream was still open" % type(e).__name__
        if not isinstance(o, error.SubstrateUnderrunError):
            return "a value was yielded for a proper prefix"
    # phase 2: writer closes -> EndOfStreamError (k > 0) / clean stop (k == 0: no item was started)
    while stream.advance():
        pass
    for _ in range(4):
        try:
            o = next(it)
        except StopIteration:
            return None if k == 0 else "iteration stopped silently on a truncated item after close"
        except error.EndOfStreamError:
            return None
        except error.PyAsn1Error as e:
            return "after close: %s instead of the end-of-stream error" % type(e).__name__
        if not isinstance(o, error.SubstrateUnderrunError):
            return "a value was yielded for a proper prefix"
    if not strict_close and (stream.last_read_short or (not seekable and stream.eof_reads > 0)):
        # tolerated (known finding F-eof-partial): a read that was partially satisfied at end-of-stream (directly, or from the
        # caching wrapper's cache while the raw stream already answered b'') keeps being
        # reported as underrun; everything else about the truncated stream was checked above
        return None
    return "still reporting underrun after the stream was closed"


SCHEMALESS_OK = ("two_ints_octs", "long_len", "bits_chunked", "ber_indef_chunked")

OBLIGATIONS = []
for st in STREAMS:
    n = len(st.items[0][3])
    tiers = ("quick", "thorough") if st.id in QUICK or st.id == "long_len" else ("thorough",)
    OBLIGATIONS.append(Obl("oneshot:%s" % st.id, oneshot, {"sid": C(st.id), "k": I(0, n - 1), "with_spec": B, "how": I(0, 2)}, budget=120, tiers=tiers,
                           doc="every proper prefix of %s, one-shot decode, three presentations" % st.doc))
    OBLIGATIONS.append(Obl("streaming:%s" % st.id, streaming, {"sid": C(st.id), "k": I(0, n - 1), "seekable": B, "strict_close": B, "polls": I(1, 3)}, budget=120, tiers=tiers,
                           doc="every proper prefix of %s on a non-blocking stream: underrun while open, end-of-stream error once closed" % st.doc))
for e in all_entries():
    quick = e.id in QUICK_IDS and (not e.has("tagged") or e.id in ("int.E", "octs.EI", "bool.EE")) and e.id not in ("seq_nest", "seqof_seq", "set_mixed", "set")
    OBLIGATIONS.append(entry_obl("oneshot_cat", oneshot_cat, e, extra={"codec": I(0, 2), "defMode": B, "chunk": I(0, 2), "cut": I(0, 40)}, narrow=True,
                                 budget=120, extra_shards=[{"codec": C(c), "cut": I(lo, hi)} for c in range(3) for (lo, hi) in ((0, 7), (8, 15), (16, 40))], tiers=("quick", "thorough") if quick else ("thorough",)))

# quick tier: entries added for other properties' sake run in the thorough tier only here
demote(OBLIGATIONS, ['seq_optc', 'set_chx', 'seq_hitags', 'seq_hitags.E', 'seq_wide', 'seq_optnull', 'seqof_choice_cons'])
demote(OBLIGATIONS, ['set_optc', 'seq_defl', 'seq_any_def', 'seq_2ch', 'seqof_octs.E'])
