"""C12 - codec calls are pure: no effect on schemas, inputs, configuration or each other."""
import io

from pyasn1 import debug, error
from pyasn1.codec.ber import decoder as ber_decoder
from pyasn1.codec.ber import encoder as ber_encoder
from pyasn1.codec.cer import decoder as cer_decoder
from pyasn1.codec.cer import encoder as cer_encoder
from pyasn1.codec.der import decoder as der_decoder
from pyasn1.codec.der import encoder as der_encoder
from pyasn1.codec.native import decoder as native_decoder
from pyasn1.codec.native import encoder as native_encoder
from pyasn1.type import base

from props.common import *
from props.streams_cat import BY_ID, STREAMS
from vfw import streams as vs
from vfw.schema import T

BOUNDS = ("catalogue schemas (contents fixed, structure symbolic as in C04); (a) the guiding type and the encoded value are snapshotted (tags, constraints, component "
          "layout, value/schema status, abstract content, DER) before and after each of 9 codec calls chosen symbolically; two decodes of the same input share no "
          "constructed object with each other or with the guiding type, and mutating one result leaves the other and the type unchanged; (b) a symbolic history of 0..2 "
          "prior codec calls reusing the schema object and the module singletons does not change the outcome of the call under test (compared with a run on fresh "
          "objects); (c) two suspended StreamingDecoders over non-blocking streams advanced under a symbolic 6-step schedule with a symbolic cut in one and 5 representative cuts in the other yield what "
          "each yields alone; (d) the same calls with debug logging switched on give identical results and leave debug.scope balanced")
OUTSIDE = ("thread schedules: the engine executes one thread, concurrent calls are not decidable with this technique (the snapshot obligations show which state is shared at all: "
           "none is mutated); histories longer than 2 prior calls; more than 2 interleaved decoders")


def _fresh(t):
    """A structurally identical schema description with nothing cached: its pyasn1 type objects are new."""
    return T(t.kind, t.tags, [(n, _fresh(ct), m, d) for (n, ct, m, d) in t.comps], None if t.elem is None else _fresh(t.elem), t.name)


def _snap_type(spec, t):
    """Observable state of a schema object, through its public API."""
    out = [spec.__class__.__name__, tuple((tg.tagClass, tg.tagFormat, tg.tagId) for tg in spec.tagSet.superTags), spec.isValue, repr(spec.subtypeSpec)]
    if t.kind in ("SEQ", "SET", "CHOICE"):
        ct = spec.componentType
        out.append(tuple((nt.name, nt.isOptional, nt.isDefaulted) for nt in ct.namedTypes))
        for i, (n, sub, m, d) in enumerate(t.comps):
            out.append(spec.getComponentByPosition(i, default=None, instantiate=False) is None)
            out.append(_snap_type(ct[i].asn1Object, sub) if m != "def" else ("default", n))
    elif t.kind in ("SEQOF", "SETOF"):
        out.append(len(spec))
        out.append(_snap_type(spec.componentType, t.elem))
    return out


def _constructed_ids(o, acc):
    if isinstance(o, base.ConstructedAsn1Type):
        acc.append(id(o))
        try:
            n = len(o)
        except error.PyAsn1Error:
            return acc
        kids = []
        if hasattr(o, "componentType") and o.__class__.__name__ in ("Sequence", "Set"):
            for i in range(len(o.componentType)):
                c = o.getComponentByPosition(i, default=None, instantiate=False)
                if c is not None:
                    kids.append(c)
        elif o.__class__.__name__ == "Choice":
            if len(o):
                kids.append(o.getComponent())
        else:
            for i in range(n):
                kids.append(o.getComponentByPosition(i, instantiate=False))
        for c in kids:
            _constructed_ids(c, acc)
    return acc


CALLS = 9
READS = 3  # read-only uses of the value that may instantiate placeholders for absent members (history only, never the call under test)


def _call(which, v, spec, enc_der):
    """One codec call; returns a comparable summary of its outcome."""
    if which == 0:
        return ber_encoder.encode(v)
    if which == 1:
        return ber_encoder.encode(v, defMode=False, maxChunkSize=2)
    if which == 2:
        return cer_encoder.encode(v)
    if which == 3:
        return der_encoder.encode(v)
    if which == 4:
        return repr(native_encoder.encode(v))
    if which == 5:
        return v.prettyPrint()
    if which == 6:
        w, rest = ber_decoder.decode(enc_der, asn1Spec=spec)
        return (der_encoder.encode(w), bytes(rest))
    if which == 7:
        w, rest = der_decoder.decode(enc_der, asn1Spec=spec)
        return (der_encoder.encode(w), bytes(rest))
    if which == 8:
        w, rest = cer_decoder.decode(cer_encoder.encode(v), asn1Spec=spec)
        return (der_encoder.encode(w), bytes(rest))
    # read-only uses (only as prior history)
    if isinstance(v, base.ConstructedAsn1Type):
        if which == 9:
            return len([x for x in (v.values() if hasattr(v, "values") else v)])
        if which == 10:
            if hasattr(v, "items"):
                return len([k for k, x in v.items()])
            return len(list(v))
        if v.__class__.__name__ == "Choice":
            return v.getComponent().isValue  # (positional reads of a non-selected alternative re-select: not a read of an existing member)
        n = len(v.componentType) if v.__class__.__name__ in ("Sequence", "Set") else len(v)
        for i in range(n):
            v.getComponentByPosition(i)
        return n
    return None


def _safe_call(which, v, spec, enc_der):
    try:
        return ("ok", _call(which, v, spec, enc_der))
    except error.PyAsn1Error as e:
        return ("error", type(e).__name__)


def immutability(sid, which, **slots):
    e = by_id(sid)
    t = _fresh(e.t)
    av = e.mk(**slots)
    spec = mk_type(t)
    v = build(t, av)
    enc = der_encoder.encode(v)
    before_t = _snap_type(spec, t)
    before_v = (v.isValue, absval(t, v), enc)
    _safe_call(which, v, spec, enc)
    if _snap_type(spec, t) != before_t:
        return "codec call %d changed the guiding type object" % which
    after_v = (v.isValue, absval(t, v), der_encoder.encode(v))
    if not (after_v[0] == before_v[0] and same(t, after_v[1], before_v[1]) and after_v[2] == before_v[2]):
        return "codec call %d changed the value that was encoded" % which
    if not (v == v) or (v != v):
        return "comparison behaviour of the value changed"
    return None


def sharing(sid, mutate, **slots):
    e = by_id(sid)
    t = _fresh(e.t)
    av = e.mk(**slots)
    spec = mk_type(t)
    enc = der_encoder.encode(build(t, av))
    w1, _ = ber_decoder.decode(enc, asn1Spec=spec)
    w2, _ = ber_decoder.decode(enc, asn1Spec=spec)
    ids1, ids2, idst = _constructed_ids(w1, []), _constructed_ids(w2, []), _constructed_ids(spec, [])
    for i in ids1:
        if i in ids2:
            return "two decoded results share a constructed object"
        if i in idst:
            return "a decoded result shares a constructed object with the guiding type"
    before_t = _snap_type(spec, t)
    before_2 = absval(t, w2)
    # mutate result 1
    k = t.kind
    if k in ("SEQ", "SET"):
        name, ct, mode, dflt = t.comps[0]
        if ct.kind != "INT":
            raise Skip()
        w1.setComponentByName(name, 77)
    elif k in ("SEQOF", "SETOF"):
        if t.elem.kind != "INT":
            raise Skip()
        w1.append(77)
        if mutate and len(w1) > 1:
            w1[0] = 78
    elif k == "CHOICE":
        name, ct, mode, dflt = t.comps[0]
        if ct.kind != "INT":
            raise Skip()
        w1.setComponentByName(name, 77)
    else:
        raise Skip()
    if not same(t, absval(t, w2), before_2):
        return "mutating one decoded result changed the other"
    if _snap_type(spec, t) != before_t:
        return "mutating a decoded result changed the guiding type"
    if der_encoder.encode(w2) != enc:
        return "mutating one decoded result changed the other's encoding"
    return None


_PAIR = T("SEQ", comps=[("x", T("INT"), "req", None), ("y", T("INT"), "req", None)])
_DEFL = [{"x": 1, "y": 10}, {"x": 2, "y": 20}]


def default_sharing(omit, k, newval, via, order):
    """SEQUENCE {a INTEGER, l SEQUENCE OF SEQUENCE{x,y} DEFAULT {{1,10},{2,20}}, s SEQUENCE{x,y} OPTIONAL}: two results decoded with one
    type object; an in-place edit deep inside one of them (element k of l, or s) changes neither the other result, nor the type's default, nor a
    result decoded afterwards."""
    t = T("SEQ", comps=[("a", T("INT"), "req", None), ("l", T("SEQOF", elem=_fresh(_PAIR)), "def", _DEFL), ("s", _fresh(_PAIR).tagged(("I", "C", 0)), "opt", None)])
    spec = mk_type(t)
    av = {"a": 5, "s": {"x": 3, "y": 30}}
    if not omit:
        av["l"] = [{"x": 1, "y": 10}, {"x": 2, "y": 21}]
    enc = der_encoder.encode(build(t, av))
    w1, _ = ber_decoder.decode(enc, asn1Spec=spec)
    w2, _ = ber_decoder.decode(enc, asn1Spec=spec)
    if order:
        w1, w2 = w2, w1
    before_t = der_encoder.encode(spec.componentType["l"].asn1Object)
    before_2 = der_encoder.encode(w2)
    if via == 0:
        w1["l"][k]["y"] = newval
    elif via == 1:
        w1["s"]["y"] = newval
    else:
        c = w1.clone(cloneValueFlag=True)
        c["l"][k]["y"] = newval
        if der_encoder.encode(w1) != enc:
            return "editing a deep copy changed the original"
    if der_encoder.encode(spec.componentType["l"].asn1Object) != before_t:
        return "editing a decoded result changed the DEFAULT value held by the type"
    if der_encoder.encode(w2) != before_2:
        return "editing one decoded result changed the other"
    w3, _ = ber_decoder.decode(enc, asn1Spec=spec)
    if der_encoder.encode(w3) != enc:
        return "a result decoded afterwards differs"
    return None


def _all_optional_record(t):
    from vfw.findings_lib import _walk

    return any(n.kind in ("SEQ", "SET") and n is not t and n.comps and all(c[2] != "req" for c in n.comps) for n in _walk(t))


def history_indep(sid, n_prior, p0, p1, which, **slots):
    e = by_id(sid)
    av = e.mk(**slots)
    # run on fresh objects
    tf = _fresh(e.t)
    fresh = _safe_call(which, build(tf, av), mk_type(tf), der_encoder.encode(build(tf, av)))
    # run after a history reusing one schema object (and the module-level singletons)
    t = _fresh(e.t)
    spec = mk_type(t)
    v = build(t, av)
    enc = der_encoder.encode(v)
    for p in (p0, p1)[:n_prior]:
        if p >= CALLS and _all_optional_record(e.t):
            # reading an ABSENT member instantiates it (documented); for a record type whose own members are all OPTIONAL/DEFAULT the
            # placeholder is already a value, i.e. such a read is not read-only in this library (see C19 / finding F-empty-optional-omitted)
            raise Skip()
        _safe_call(p, v, spec, enc)
    got = _safe_call(which, v, spec, enc)
    if got != fresh:
        return "call %d behaves differently after the history %s than on fresh objects" % (which, (p0, p1)[:n_prior])
    return None


def debug_flag(sid, which, **slots):
    e = by_id(sid)
    av = e.mk(**slots)
    t = _fresh(e.t)
    spec, v = mk_type(t), build(t, av)
    enc = der_encoder.encode(build(t, av))
    plain = _safe_call(which, v, spec, enc)
    depth = len(debug.scope._list) if hasattr(debug, "scope") and hasattr(debug.scope, "_list") else None
    debug.setLogger(debug.Debug("all", printer=lambda *a: None))
    try:
        # (a second, equal value: whatever the first call may have done to its argument must not mask a difference)
        logged = _safe_call(which, build(t, av), spec, enc)
    finally:
        debug.setLogger(0)
    if logged != plain:
        return "call %d gives a different result with debug logging on" % which
    if depth is not None and len(debug.scope._list) != depth:
        return "debug.scope left unbalanced"
    return None


def _stream_events(enc, spec, c1, seekable):
    s = vs.ArrivalStream(enc, [c1], eof_with_last=True, seekable=seekable)
    out = []
    it = iter(ber_decoder.StreamingDecoder(s, asn1Spec=spec))
    for _ in range(12):
        try:
            o = next(it)
        except StopIteration:
            out.append("stop")
            return out
        except error.PyAsn1Error as ex:
            out.append("error:" + type(ex).__name__)
            return out
        if isinstance(o, error.SubstrateUnderrunError):
            out.append("underrun")
            s.advance()
        else:
            out.append(der_encoder.encode(o))
    return out


def debug_stream(sid, seekable, indef, c1, **slots):
    """Streaming decode over a two-chunk arrival, with and without debug logging: same events (objects, underruns, end)."""
    e = by_id(sid)
    av = e.mk(**slots)
    t = _fresh(e.t)
    spec, v = mk_type(t), build(t, av)
    enc = ber_encoder.encode(v, defMode=not indef)
    if c1 > len(enc):
        raise Skip()
    plain = _stream_events(enc, spec, c1, seekable)
    debug.setLogger(debug.Debug("all", printer=lambda *a: None))
    try:
        logged = _stream_events(enc, spec, c1, seekable)
    finally:
        debug.setLogger(0)
    if logged != plain:
        return "streaming decode gives different events with debug logging on: %s vs %s" % (logged[-2:], plain[-2:])
    return None


def _run_alone(st, cut):
    s = vs.ArrivalStream(st.data, [cut], eof_with_last=True)
    out = []
    it = iter(ber_decoder.StreamingDecoder(s, asn1Spec=st.spec))
    for _ in range(40):
        try:
            o = next(it)
        except StopIteration:
            return out
        if isinstance(o, error.SubstrateUnderrunError):
            s.advance()
        else:
            out.append(der_encoder.encode(o))
    return out


def interleave(sa, sb, ca, cbi, p0, p1, p2, p3, p4, p5):
    A, B_ = BY_ID[sa], BY_ID[sb]
    cb = (0, 1, len(B_.data) // 2, len(B_.data) - 1, len(B_.data))[cbi]
    if ca > len(A.data) or cb > len(B_.data):
        raise Skip()
    want_a, want_b = _run_alone(A, ca), _run_alone(B_, cb)
    streams = [vs.ArrivalStream(A.data, [ca], eof_with_last=True), vs.ArrivalStream(B_.data, [cb], eof_with_last=True)]
    its = [iter(ber_decoder.StreamingDecoder(streams[0], asn1Spec=A.spec)), iter(ber_decoder.StreamingDecoder(streams[1], asn1Spec=B_.spec))]
    outs = [[], []]
    done = [False, False]

    def step(i):
        if done[i]:
            return
        try:
            o = next(its[i])
        except StopIteration:
            done[i] = True
            return
        if isinstance(o, error.SubstrateUnderrunError):
            streams[i].advance()
        else:
            outs[i].append(der_encoder.encode(o))

    for p in (p0, p1, p2, p3, p4, p5):
        step(1 if p else 0)
    for i in (0, 1):
        for _ in range(40):
            if done[i]:
                break
            step(i)
    if outs[0] != want_a:
        return "decoder A yields different objects when interleaved with decoder B"
    if outs[1] != want_b:
        return "decoder B yields different objects when interleaved with decoder A"
    return None


FIX = {"o0": C(65), "o2": C(67), "o3": C(0), "i0": C(127), "i1": C(1), "i2": C(0), "c0": C(128), "c1": C(65), "a2": C(128), "o1": C(66), "m": C(3), "e": C(1)}
PICK = ("int", "octs", "bits", "bool.E", "seq", "seqof_int", "setof_octs", "choice", "set_mixed", "seq_nest", "seq_optc")
OBLIGATIONS = []
for e in all_entries():
    quick = e.id in PICK
    fix = dict((k, v) for k, v in FIX.items() if k in e.params and k not in e.shard)
    if "n" in e.params:
        fix["n"] = I(0, 1)
    tiers = ("quick", "thorough") if quick else ("thorough",)
    OBLIGATIONS.append(entry_obl("immutability", immutability, e, extra={"which": I(0, CALLS - 1)}, narrow=True, budget=120,
                                 extra_shards=[dict(fix, which=C(w)) for w in range(CALLS)], tiers=tiers))
    _first = e.t.comps[0][1].kind if e.t.comps else (e.t.elem.kind if e.t.elem is not None else None)
    if e.has("constructed") and _first == "INT":
        OBLIGATIONS.append(entry_obl("sharing", sharing, e, extra={"mutate": B}, narrow=True, budget=90, extra_shards=[fix], tiers=tiers))
    OBLIGATIONS.append(entry_obl("history_indep", history_indep, e, extra={"n_prior": I(0, 2), "p0": I(0, CALLS + READS - 1), "p1": I(0, CALLS - 1), "which": I(0, CALLS - 1)},
                                 extra_thorough={"p1": I(0, CALLS + READS - 1)},
                                 narrow=True, budget=120, extra_shards=[dict(fix, which=C(w)) for w in (1, 3, 4, 6, 8)],
                                 tiers=("quick", "thorough") if e.id in ("seq", "set_mixed", "seqof_int", "choice", "bits", "int") else ("thorough",)))
    OBLIGATIONS.append(entry_obl("debug_flag", debug_flag, e, extra={"which": I(0, CALLS - 1)}, narrow=True, budget=120,
                                 extra_shards=[dict(fix, which=C(w)) for w in range(CALLS)],
                                 tiers=("quick", "thorough") if e.id in ("seq", "set_mixed", "seqof_int", "choice.E", "bits", "octs", "seq_any", "seq_optc", "seq_any_def") else ("thorough",)))
for _sid in ("seq_any", "seq_any.E", "seq", "choice.E", "seqof_int", "set_mixed"):
    e = by_id(_sid)
    fix = dict((k, v) for k, v in FIX.items() if k in e.params and k not in e.shard)
    OBLIGATIONS.append(entry_obl("debug_stream", debug_stream, e, extra={"seekable": B, "indef": B, "c1": I(0, 24)}, narrow=True, budget=150,
                                 extra_shards=[dict(fix, seekable=C(sk), indef=C(ind)) for sk in (False, True) for ind in (False, True)],
                                 tiers=("quick", "thorough") if _sid in ("seq_any", "seq", "choice.E") else ("thorough",),
                                 doc="streaming decoder over every two-chunk arrival with and without debug logging"))
    OBLIGATIONS[-1].per_path = 8.0
def stream_isolated(sid, c1, eof_with_last):
    """Items decoded one after the other by ONE StreamingDecoder (shared tag caches, shared substrate) equal the items decoded in
    isolation by fresh one-shot decoders."""
    from props import C05

    return C05.run_schedule(sid, 1, eof_with_last, (c1,))


for _sid in ("two_ints_octs", "hi_tags_x3", "der_seq_x2", "choice_expl_indef"):
    OBLIGATIONS.append(Obl("stream_isolated:%s" % _sid, stream_isolated, {"sid": C(_sid), "c1": I(0, len(BY_ID[_sid].data)), "eof_with_last": B}, budget=120,
                           doc="one decoder instance over several items vs each item decoded in isolation; every two-chunk arrival"))
OBLIGATIONS.append(Obl("default_sharing", default_sharing, {"omit": B, "k": I(0, 1), "newval": I(98, 99), "via": I(0, 2), "order": B}, budget=120,
                       doc="deep in-place edits of one decoded result (incl. inside a DEFAULT SEQUENCE OF of records) vs the other result, the type's default and later results"))
PAIRS = [("der_seq", "ber_indef_chunked"), ("cer_set", "choice_expl_indef"), ("two_ints_octs", "bits_chunked"), ("hi_tags_x3", "two_ints_octs"), ("der_seq", "der_seq"), ("hi_tag", "der_seq_x2")]
for (a, b) in PAIRS:
    OBLIGATIONS.append(Obl("interleave:%s+%s" % (a, b), interleave,
                           {"sa": C(a), "sb": C(b), "ca": I(0, len(BY_ID[a].data)), "cbi": I(0, 4), "p0": B, "p1": B, "p2": B, "p3": B, "p4": B, "p5": B},
                           shards=[{"p0": C(x), "p1": C(y), "p2": C(z)} for x in (False, True) for y in (False, True) for z in (False, True)], budget=150,
                           tiers=("quick", "thorough") if (a, b) in PAIRS[:4] else ("thorough",),
                           doc="two suspended StreamingDecoders, symbolic cut each, symbolic 6-step schedule"))
