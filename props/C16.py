"""C16 - self-describing encodings decode faithfully without a schema."""
from pyasn1.codec.ber import decoder as ber_decoder
from pyasn1.codec.ber import encoder as ber_encoder
from pyasn1.codec.cer import decoder as cer_decoder
from pyasn1.codec.cer import encoder as cer_encoder
from pyasn1.codec.der import decoder as der_decoder
from pyasn1.codec.der import encoder as der_encoder
from pyasn1.type import base, univ

from props.common import *
from vfw import x690ref as R
from vfw.schema import STR_KINDS, UNIV_TAG, T

BOUNDS = ("sub-catalogue: schemas using only UNIVERSAL tags and EXPLICIT tagging, no ANY, no untagged CHOICE ambiguity (CHOICE decodes to the chosen "
          "alternative), incl. empty SEQUENCE OF, nested empty containers, single-member and homogeneous records; values as C01")
OUTSIDE = "IMPLICIT tags, ANY, heterogeneous SET OF; REAL base 10"

NUM2KIND = dict((v, k) for k, v in UNIV_TAG.items() if k not in ("SEQOF", "SETOF"))
for _k, (_c, _n, _codec) in STR_KINDS.items():
    NUM2KIND[_n] = "STR:" + _k


def leaves_of_bytes(buf, start, end, out):
    """Primitive TLVs in order as (universal tag number, content octets); EXPLICIT wrappers are transparent.
    Constructed strings are concatenated by the reference reader."""
    p = start
    while p < end:
        r = R.read_tlv(buf, p)
        cls, num, constructed, s, e, nxt, indef = r
        if cls == "U" and num in (16, 17):
            out.append(("open", num))
            leaves_of_bytes(buf, s, e, out)
            out.append(("close", num))
        elif cls != "U":
            leaves_of_bytes(buf, s, e, out)
        else:
            kind = NUM2KIND[num]
            out.append((num, R._read_content(T(kind), buf, r)))
        p = nxt
    return out


def leaves_of_obj(o, out):
    """The same view computed from a pyasn1 object decoded without a schema (only its own API)."""
    if isinstance(o, (univ.SequenceOf, univ.SetOf, univ.Sequence, univ.Set)):
        num = o.tagSet[0].tagId
        out.append(("open", num))
        kids = [o.getComponentByPosition(i) for i in range(len(o))]
        # the other public ways of reading the members in order must agree with the positional one
        if isinstance(o, (univ.Sequence, univ.Set)):
            by_values = list(o.values())
            by_items = [v_ for (_k, v_) in o.items()]
            by_keys = [o[k_] for k_ in o.keys()]
        else:
            by_values = by_items = by_keys = list(o)
        for alt in (by_values, by_items, by_keys):
            if len(alt) != len(kids) or any(a_ is not b_ for a_, b_ in zip(alt, kids)):
                out.append(("order", "values()/items()/keys()/iteration disagree with positions"))
        for c in kids:
            leaves_of_obj(c, out)
        out.append(("close", num))
        return out
    num = o.tagSet[0].tagId
    kind = NUM2KIND[num]
    out.append((num, absval(T(kind), o)))
    return out


def _norm(leaves):
    out = []
    for l in leaves:
        if l[0] in ("open", "close", "order"):
            out.append(l)
        else:
            kind = NUM2KIND[l[0]]
            from vfw.schema import norm
            out.append((l[0], norm(T(kind), l[1])))
    return out


def _check_obj(w, what):
    if w is None or not isinstance(w, base.Asn1Item):
        return "%s: decoder returned %s instead of an ASN.1 object" % (what, type(w).__name__)
    if not w.isValue:
        return "%s: decoder returned a valueless (schema) object" % what
    return None


def schemaless(sid, part, defMode, chunk, **slots):
    e = by_id(sid)
    av = e.mk(**slots)
    v = build(e.t, av)
    enc = der_encoder.encode(v)
    w, rest = der_decoder.decode(substrate(enc))
    msg = _check_obj(w, "DER")
    if msg:
        return msg
    if len(rest) != 0:
        return "remainder after schemaless DER decode"
    if der_encoder.encode(w) != enc:
        return "re-encoding the schemaless result is not byte-identical"
    from vfw.schema import deep_eq
    want = _norm(leaves_of_bytes(enc, 0, len(enc), []))
    got = _norm(leaves_of_obj(w, []))
    if not deep_eq(got, want):
        return "scalar leaves differ from the original's"
    if part == 0:
        return None
    # BER (any mode) and CER encodings: same leaves
    if part == 1:
        todo = (("BER", ber_encoder.encode(v, defMode=defMode, maxChunkSize=chunk), ber_decoder),)
    else:
        todo = (("CER", cer_encoder.encode(v), cer_decoder),)
    for name, enc2, dec in todo:
        w2, rest2 = dec.decode(substrate(enc2))
        msg = _check_obj(w2, name)
        if msg:
            return msg
        if len(rest2) != 0:
            return "remainder after schemaless %s decode" % name
        got2 = _norm(leaves_of_obj(w2, []))
        want2 = _norm(leaves_of_bytes(enc2, 0, len(enc2), []))
        if not deep_eq(got2, want2):
            return "%s: scalar leaves differ from the encoding's" % name
        if not e.has("set") and not e.has("setof") and not deep_eq(got2, want):
            return "%s: scalar leaves differ from the DER ones" % name
    return None


def _self_describing(t):
    from vfw.findings_lib import _walk

    for n in _walk(t):
        if n.kind == "ANY" or any(m != "E" for (m, _c, _x) in n.tags):
            return False
    return True


OBLIGATIONS = []
for e in all_entries():
    if not _self_describing(e.t) or e.has("real"):
        continue
    OBLIGATIONS.append(entry_obl("schemaless_der", schemaless, e, extra={"part": C(0), "defMode": C(True), "chunk": C(0)}, budget=90))
    OBLIGATIONS.append(entry_obl("schemaless_ber", schemaless, e, extra={"part": C(1), "defMode": B, "chunk": I(0, 3)}, budget=90, narrow=True))
    OBLIGATIONS.append(entry_obl("schemaless_cer", schemaless, e, extra={"part": C(2), "defMode": C(True), "chunk": C(0)}, budget=90, narrow=True))
