"""C02 - DER and CER round trip; canonical output accepted by every wider decoder."""
from pyasn1 import error
from pyasn1.codec.ber import decoder as ber_decoder
from pyasn1.codec.cer import decoder as cer_decoder
from pyasn1.codec.cer import encoder as cer_encoder
from pyasn1.codec.der import decoder as der_decoder
from pyasn1.codec.der import encoder as der_encoder

from props.common import *

BOUNDS = ("catalogue U_Q/U_T with the value ranges of C01; encoder/decoder pairs (DER,DER) (DER,CER) (DER,BER) (CER,CER) (CER,BER); "
          "long strings: OCTET STRING / UTF8String / [3] EXPLICIT IA5String / [5] IMPLICIT BIT STRING / records holding them, of 999, 1000, 1001, 2001 octets (content concrete, one symbolic octet)")
OUTSIDE = "REAL from floats / base 10; strings between 5 and 998 octets; schemas outside the catalogue"

DECODERS = {"der": der_decoder, "cer": cer_decoder, "ber": ber_decoder}


def _decode_all(t, enc, names, av):
    results = []
    for name in names:
        w, rest = DECODERS[name].decode(substrate(enc), asn1Spec=mk_type(t))
        if len(rest) != 0:
            return "%s decoder left a remainder" % name
        a = absval(t, w)
        if not same(t, a, av):
            return "%s decoder returned a different value" % name
        results.append(a)
    return None


def rt_der(sid, **slots):
    e = by_id(sid)
    av = e.mk(**slots)
    enc = der_encoder.encode(build(e.t, av))
    return _decode_all(e.t, enc, ("der", "cer", "ber"), av)


def rt_cer(sid, **slots):
    e = by_id(sid)
    av = e.mk(**slots)
    enc = cer_encoder.encode(build(e.t, av))
    return _decode_all(e.t, enc, ("cer", "ber"), av)


def long_strings(kind, size, x, pos, der):
    """Strings around the CER 1000-octet segment size; one symbolic octet at a symbolic position class."""
    from vfw.schema import T

    if kind == 0:
        t = T("OCTS")
    elif kind == 1:
        t = T("STR:UTF8")
    elif kind == 2:
        t = T("STR:IA5").tagged(("E", "C", 3))
    elif kind == 4:
        t = T("BITS").tagged(("I", "C", 5))
    elif kind == 5:
        t = T("SEQ", comps=[("b", T("BITS").tagged(("I", "C", 0)), "req", None), ("s", T("STR:UTF8").tagged(("I", "C", 1)), "opt", None)])
    else:
        t = T("SEQ", comps=[("s", T("OCTS").tagged(("I", "C", 0)), "req", None), ("i", T("INT"), "req", None)])
    n = [999, 1000, 1001, 2001][size]
    p = [0, 999, n - 1][pos]
    if p >= n:
        raise Skip()
    body = bytes([(i * 7 + 3) % 120 + 1 for i in range(p)]) + bytes([x]) + bytes([(i * 5 + 1) % 120 + 1 for i in range(n - p - 1)])
    av = {"s": body, "i": 5} if kind == 3 else body
    if kind >= 4:
        # BIT STRING contents of this size as one symbolic integer are beyond the engine's integer model: all octets concrete here
        body = bytes([(i * 7 + 3) % 120 + 1 for i in range(n)])
    if kind == 4:
        av = (n * 8 - 3, int.from_bytes(body, "big") // 8)
    elif kind == 5:
        av = {"b": (n * 8 - 5, int.from_bytes(body, "big") // 32), "s": body}
    v = build(t, av)
    if der:
        return _decode_all(t, der_encoder.encode(v), ("der", "cer", "ber"), av)
    return _decode_all(t, cer_encoder.encode(v), ("cer", "ber"), av)


OBLIGATIONS = []
for e in all_entries():
    OBLIGATIONS.append(entry_obl("rt_der", rt_der, e))
    OBLIGATIONS.append(entry_obl("rt_cer", rt_cer, e))
for e in all_entries(ber_only=True):
    if e.has("ber_only"):
        OBLIGATIONS.append(entry_obl("rt_cer", rt_cer, e))  # values only BER/CER can carry: the DER half of the property does not apply
OBLIGATIONS.append(Obl("long_strings", long_strings, {"kind": I(0, 5), "size": I(0, 3), "x": I(0, 127), "pos": I(0, 2), "der": B},
                       shards=[{"kind": C(k), "der": C(d)} for k in range(4) for d in (False, True)] +
                              [{"kind": C(k), "der": C(d), "size": C(z), "x": C(0), "pos": C(0)} for k in (4, 5) for d in (False, True) for z in range(4)], budget=120, per_path=60,
                       doc="strings of 999/1000/1001/2001 octets through DER and CER and every wider decoder"))

# exponent-octet sign boundaries of binary REALs (third sensitivity round): cheap, so also in the quick tier here
promote(OBLIGATIONS, ["real_exp"])
