"""C07 - decoding consumes exactly one encoding and preserves what follows."""
from pyasn1.codec.ber import decoder as ber_decoder
from pyasn1.codec.ber import encoder as ber_encoder
from pyasn1.codec.cer import decoder as cer_decoder
from pyasn1.codec.cer import encoder as cer_encoder
from pyasn1.codec.der import decoder as der_decoder
from pyasn1.codec.der import encoder as der_encoder

from props.common import *
from vfw.streams import SymStream, SYMBOLIC
from vfw import streams

BOUNDS = ("catalogue U_Q/U_T values as C01; codec in {BER(defMode, chunk symbolic), CER, DER}; tail of 0..3 unconstrained symbolic octets "
          "(so 00 00, another tag, garbage are all covered); streaming: 2-3 concatenated encodings, position checked after each object")
ASSUMPTIONS = ["stream_objects_ns: io.DEFAULT_BUFFER_SIZE as seen by pyasn1.codec.streaming is replaced by 8 during the harness (environment constant), in symbolic exploration and replay alike"]
OUTSIDE = "tails longer than 3 octets; more than 3 concatenated encodings"


def _encode(codec, v, defMode, chunk):
    if codec == 0:
        return ber_encoder.encode(v, defMode=defMode, maxChunkSize=chunk)
    if codec == 1:
        return cer_encoder.encode(v)
    return der_encoder.encode(v)


def _decoder(codec):
    return (ber_decoder, cer_decoder, der_decoder)[codec]


def tail(sid, codec, defMode, chunk, tlen, t0, t1, t2, **slots):
    e = by_id(sid)
    av = e.mk(**slots)
    enc = _encode(codec, build(e.t, av), defMode, chunk)
    t = bytes([t0, t1, t2][:tlen])
    w, rest = _decoder(codec).decode(substrate(enc + t), asn1Spec=mk_type(e.t))
    if not same(e.t, absval(e.t, w), av):
        return "value of the first encoding is wrong"
    if bytes(rest) != t if not streams.SYMBOLIC else rest != t:
        return "trailing octets not returned unchanged"
    return None


def stream_positions(sid, codec, defMode, chunk, cnt, **slots):
    """n encodings back to back on a stream: one object each, position == end of that encoding."""
    from pyasn1 import error
    import io

    e1 = by_id(sid)
    n = cnt
    av1 = e1.mk(**slots)
    enc1 = _encode(codec, build(e1.t, av1), defMode, chunk)
    encs = [enc1] * n
    data = b"".join(encs)
    stream = SymStream(data) if streams.SYMBOLIC else io.BytesIO(bytes(data))
    dec = _decoder(codec).StreamingDecoder(stream, asn1Spec=mk_type(e1.t))
    pos = 0
    count = 0
    for obj in dec:
        if isinstance(obj, error.SubstrateUnderrunError):
            return "underrun on complete data"
        pos += len(encs[count])
        count += 1
        if stream.tell() != pos:
            return "stream position after object %d is %s, expected %s" % (count, stream.tell(), pos)
        if not same(e1.t, absval(e1.t, obj), av1):
            return "object %d differs" % count
        if count > n:
            return "too many objects"
    if count != n:
        return "yielded %d objects for %d encodings" % (count, n)
    return None


def tail_long(shape, li, x, defMode, ck, tlen, t0, t1):
    """Payloads whose length octets sit on the 127/128, 255/256 boundaries (four shapes, see C01.rt_long) followed by a tail."""
    from props import C01
    from vfw.schema import T

    n = C01.LONG[li]
    body = bytes([x]) + bytes([(i * 7 + 3) % 251 for i in range(n - 1)])
    if shape == 0:
        t, av = T("OCTS"), body
    elif shape == 1:
        t, av = T("STR:IA5").tagged(("E", "C", 2)), bytes(b % 128 for b in body)
    elif shape == 2:
        t, av = T("SEQ", comps=[("p", T("OCTS"), "req", None), ("q", T("INT"), "opt", None)]), {"p": body[:n - 4] if n > 4 else body, "q": 5}
    else:
        t, av = T("SEQOF", elem=T("OCTS").tagged(("I", "C", 0))), [body[: n // 2 - 2], body[n // 2:]]
    enc = ber_encoder.encode(build(t, av), defMode=defMode, maxChunkSize=(0, 100)[ck])
    tl = bytes([t0, t1][:tlen])
    w, rest = ber_decoder.decode(substrate(enc + tl), asn1Spec=mk_type(t))
    if not same(t, absval(t, w), av):
        return "value of the first encoding is wrong"
    if bytes(rest) != tl if not streams.SYMBOLIC else rest != tl:
        return "trailing octets not returned unchanged"
    return None


class _IoShim(object):
    DEFAULT_BUFFER_SIZE = 8

    def __getattr__(self, name):
        import io

        return getattr(io, name)


class _Raw(object):
    """Non-seekable blocking raw stream."""

    def __init__(self, data):
        self._d, self._p = data, 0

    def seekable(self):
        return False

    def read(self, n=-1):
        if n is None or n < 0:
            n = len(self._d) - self._p
        r = self._d[self._p:self._p + n]
        self._p += len(r)
        return r


def stream_objects_ns(sid, codec, defMode, chunk, cnt, **slots):
    """cnt encodings back to back on a NON-seekable stream (real CachingStreamWrapper, cache-drop threshold scaled to 8 octets):
    exactly one object per encoding, each equal to the value, nothing lost between items when the cache is dropped."""
    from pyasn1 import error
    from pyasn1.codec import streaming as pstreaming

    e1 = by_id(sid)
    if e1.has("constructed") and not (codec == 1 or (codec == 0 and not defMode)):
        raise Skip()  # definite-length containers beyond the (scaled) buffer on a non-seekable stream: known finding F-cache-renumber of C11
    if codec == 0 and defMode and chunk:
        raise Skip()  # definite-length *constructed* strings are containers too (same known finding)
    av1 = e1.mk(**slots)
    enc1 = _encode(codec, build(e1.t, av1), defMode, chunk)
    data = b"".join([enc1] * cnt)
    saved = pstreaming.io
    pstreaming.io = _IoShim()
    try:
        count = 0
        for obj in _decoder(codec).StreamingDecoder(_Raw(data), asn1Spec=mk_type(e1.t)):
            if isinstance(obj, error.SubstrateUnderrunError):
                return "underrun on complete data"
            count += 1
            if count > cnt:
                return "too many objects"
            if not same(e1.t, absval(e1.t, obj), av1):
                return "object %d differs" % count
        if count != cnt:
            return "yielded %d objects for %d encodings" % (count, cnt)
    finally:
        pstreaming.io = saved
    return None


OBLIGATIONS = [Obl("tail_long", tail_long, {"shape": I(0, 3), "li": I(0, 6), "x": I(0, 127), "defMode": B, "ck": I(0, 1), "tlen": I(0, 2), "t0": BYTE, "t1": BYTE},
                   shards=[{"shape": C(s_), "li": C(l_)} for s_ in range(4) for l_ in range(7)], budget=150, per_path=100,
                   doc="payload lengths 126..129, 255..257 in four shapes followed by 0..2 unconstrained octets")]
TAILP = {"codec": I(0, 2), "defMode": B, "chunk": I(0, 2 ** 31 - 1), "tlen": I(0, 3), "t0": BYTE, "t1": BYTE, "t2": BYTE}
for e in all_entries(ber_only=True):
    OBLIGATIONS.append(entry_obl("tail", tail, e, extra=TAILP, budget=90, narrow=True, extra_shards=[{"codec": C(c)} for c in range(2 if e.has("ber_only") else 3)]))
for e in select("thorough", "leaf", "univ") + select("thorough", "constructed"):
    if e.id in ("int", "octs", "bool", "seq", "seqof_int", "choice", "set", "bits", "utf8", "int.E", "octs.E", "seq.E"):
        if e.id in ("int", "octs", "bool", "bits", "seq", "seqof_int", "utf8"):
            # (an untagged CHOICE measures its definite-length alternative across the cache drop: same known finding, left out)
            _leaf = e.has("leaf")
            OBLIGATIONS.append(entry_obl("stream_objects_ns", stream_objects_ns, e,
                                         budget=150, narrow=True,
                                         extra={"codec": I(0, 2), "defMode": B, "chunk": I(0, 1), "cnt": I(2, 3) if _leaf else C(2), **({"n": I(0, 2)} if "n" in e.params else {}),
                                                **dict((k_, C(65 + i_)) for i_, k_ in enumerate(("o0", "o1", "o2", "o3", "c0", "c1")) if k_ in e.params)},  # the wrapper's cache is a real io.BytesIO: contents concrete
                                         extra_shards=[{"codec": C(c)} for c in range(3)],
                                         tiers=("quick", "thorough") if e.id in ("int", "octs", "bool", "seqof_int") else ("thorough",)))
        OBLIGATIONS.append(entry_obl("stream_positions", stream_positions, e,
                                     extra={"codec": I(0, 2), "defMode": B, "chunk": I(0, 3), "cnt": I(1, 3)}, budget=90, narrow=True,
                                     extra_shards=[{"codec": C(c)} for c in range(3)]))

# quick tier: entries added for other properties' sake run in the thorough tier only here
demote(OBLIGATIONS, ['seq_optc', 'set_chx', 'seq_hitags.E', 'seq_wide', 'seq_optnull', 'seqof_choice_cons', 'choice_cons'])
# quick tier: one representative per tag-stack family; the full product of bases x stacks runs in the thorough tier
demote(OBLIGATIONS, ['bool.I', 'bool.EI', 'bool.EE', 'null.I', 'null.E', 'null.EI', 'null.EE', 'oid.I', 'oid.EI', 'oid.EE', 'bits.EI', 'bits.EE', 'utf8.I', 'utf8.EI', 'utf8.EE', 'int.EI', 'octs.EI', 'octs.EE', 'seq.EE', 'set.I', 'set.EE', 'seqof_int.I', 'seqof_int.EE', 'setof_octs.I', 'setof_octs.E', 'setof_octs.EE', 'int.IE', 'octs.IE', 'seqof_seq'], prefixes=('tail',))
demote(OBLIGATIONS, ['set_optc', 'seq_defl', 'seq_any_def', 'seq_2ch', 'seqof_octs.E'])
