"""C07 - decoding consumes exactly one encoding and preserves what follows."""
from pyasn1.codec.ber import decoder as ber_decoder
from pyasn1.codec.ber import encoder as ber_encoder
from pyasn1.codec.cer import decoder as cer_decoder
from pyasn1.codec.cer import encoder as cer_encoder
from pyasn1.codec.der import decoder as der_decoder
from pyasn1.codec.der import encoder as der_encoder

from props.common import *
from vfw.streams import SymStream, SYMBOLIC
from vfw import streams

BOUNDS = ("catalogue U_Q/U_T values as C01; codec in {BER(defMode, chunk symbolic), CER, DER}; tail of 0..3 unconstrained symbolic octets "
          "(so 00 00, another tag, garbage are all covered); streaming: 2-3 concatenated encodings, position checked after each object")
OUTSIDE = "tails longer than 3 octets; more than 3 concatenated encodings"


def _encode(codec, v, defMode, chunk):
    if codec == 0:
        return ber_encoder.encode(v, defMode=defMode, maxChunkSize=chunk)
    if codec == 1:
        return cer_encoder.encode(v)
    return der_encoder.encode(v)


def _decoder(codec):
    return (ber_decoder, cer_decoder, der_decoder)[codec]


def tail(sid, codec, defMode, chunk, tlen, t0, t1, t2, **slots):
    e = by_id(sid)
    av = e.mk(**slots)
    enc = _encode(codec, build(e.t, av), defMode, chunk)
    t = bytes([t0, t1, t2][:tlen])
    w, rest = _decoder(codec).decode(substrate(enc + t), asn1Spec=mk_type(e.t))
    if not same(e.t, absval(e.t, w), av):
        return "value of the first encoding is wrong"
    if bytes(rest) != t if not streams.SYMBOLIC else rest != t:
        return "trailing octets not returned unchanged"
    return None


def stream_positions(sid, codec, defMode, chunk, cnt, **slots):
    """n encodings back to back on a stream: one object each, position == end of that encoding."""
    from pyasn1 import error
    import io

    e1 = by_id(sid)
    n = cnt
    av1 = e1.mk(**slots)
    enc1 = _encode(codec, build(e1.t, av1), defMode, chunk)
    encs = [enc1] * n
    data = b"".join(encs)
    stream = SymStream(data) if streams.SYMBOLIC else io.BytesIO(bytes(data))
    dec = _decoder(codec).StreamingDecoder(stream, asn1Spec=mk_type(e1.t))
    pos = 0
    count = 0
    for obj in dec:
        if isinstance(obj, error.SubstrateUnderrunError):
            return "underrun on complete data"
        pos += len(encs[count])
        count += 1
        if stream.tell() != pos:
            return "stream position after object %d is %s, expected %s" % (count, stream.tell(), pos)
        if not same(e1.t, absval(e1.t, obj), av1):
            return "object %d differs" % count
        if count > n:
            return "too many objects"
    if count != n:
        return "yielded %d objects for %d encodings" % (count, n)
    return None


OBLIGATIONS = []
TAILP = {"codec": I(0, 2), "defMode": B, "chunk": I(0, 2 ** 31 - 1), "tlen": I(0, 3), "t0": BYTE, "t1": BYTE, "t2": BYTE}
for e in all_entries():
    OBLIGATIONS.append(entry_obl("tail", tail, e, extra=TAILP, budget=90, narrow=True, extra_shards=[{"codec": C(c)} for c in range(3)]))
for e in select("thorough", "leaf", "univ") + select("thorough", "constructed"):
    if e.id in ("int", "octs", "bool", "seq", "seqof_int", "choice", "set", "bits", "utf8", "int.E", "octs.E", "seq.E"):
        OBLIGATIONS.append(entry_obl("stream_positions", stream_positions, e,
                                     extra={"codec": I(0, 2), "defMode": B, "chunk": I(0, 3), "cnt": I(1, 3)}, budget=90, narrow=True,
                                     extra_shards=[{"codec": C(c)} for c in range(3)]))
