"""C20 - time values convert to and from datetime without changing the instant."""
import datetime as real_datetime

from pyasn1 import error
from pyasn1.codec.cer import encoder as cer_encoder
from pyasn1.codec.der import encoder as der_encoder
from pyasn1.type import useful

from props.common import *
from vfw import streams as vs

BOUNDS = ("datetime round trip: calendar fields from a boundary corpus (8 instants incl. 1950/2049 pivots, leap day, year 1, year 9999), millisecond ms in "
          "[0, 999] symbolic, UTC offset in whole minutes in [-840, 840] (thorough: every offset below 24 h, [-1439, 1439]) symbolic or absent; GeneralizedTime and UTCTime; CER/DER canonical encoder: "
          "fraction of 0..6 symbolic digits, separator {none, '.', ','}, suffix {Z, +0130, -0200, none}, with/without seconds")
OUTSIDE = "calendar arithmetic of datetime.strptime/strftime themselves (C library); fractions longer than 6 digits; years outside the corpus"
ASSUMPTIONS = ["while exploring, the name `datetime` inside pyasn1.type.useful is replaced by a shim: strptime runs the real one on the (by then concrete) calendar text and "
               "records the final replace(microsecond=, tzinfo=); timedelta(minutes=) keeps symbolic minutes; concrete replay uses the real datetime module end to end"]

CAL = [
    real_datetime.datetime(2017, 7, 11, 0, 1, 2), real_datetime.datetime(1999, 12, 31, 23, 59, 59), real_datetime.datetime(2000, 2, 29, 12, 0, 0),
    real_datetime.datetime(1950, 1, 1, 0, 0, 0), real_datetime.datetime(2049, 12, 31, 23, 59, 59), real_datetime.datetime(1970, 1, 1, 0, 0, 1),
    real_datetime.datetime(2038, 1, 19, 3, 14, 8), real_datetime.datetime(2024, 6, 30, 23, 59, 0),
]
# UTCTime has a two-digit year: only instants inside the library's (Python's %y) window 1969..2068 are representable
CAL_UTC = [c for c in CAL if 1969 <= c.year <= 2068]
CAL_GT_ONLY = [real_datetime.datetime(1, 1, 1, 0, 0, 0), real_datetime.datetime(9999, 12, 31, 23, 59, 59)]


class _DuckDelta(object):
    def __init__(self, days=0, seconds=0, microseconds=0, milliseconds=0, minutes=0, hours=0, weeks=0):
        self.total = days * 86400 + seconds + minutes * 60 + hours * 3600
        self.days = -1 if self.total < 0 else 0  # |offset| < 1 day
        self.seconds = self.total - self.days * 86400

    def __bool__(self):
        if self.total != 0:
            return True
        return False

    def total_seconds(self):
        return self.total


class _DuckDT(object):
    def __init__(self, cal, ms, off_minutes):
        self._cal, self.microsecond, self._off = cal, ms * 1000, off_minutes

    def strftime(self, fmt):
        return self._cal.strftime(fmt)

    def __getattr__(self, name):
        # calendar fields (year, month, ...) are concrete
        return getattr(self._cal, name)

    def utcoffset(self):
        if self._off is None:
            return None
        return _DuckDelta(minutes=self._off)


class _Rec(object):
    def __init__(self, dt):
        self.dt = dt

    def replace(self, microsecond=None, tzinfo=None):
        return ("replaced", self.dt, microsecond, tzinfo)


class _DatetimeClassShim(object):
    @staticmethod
    def strptime(text, fmt):
        from crosshair.core import realize
        return _Rec(real_datetime.datetime.strptime(realize(text), fmt))


class _ModuleShim(object):
    datetime = _DatetimeClassShim
    timedelta = _DuckDelta
    tzinfo = real_datetime.tzinfo


def _tz_minutes(tzinfo):
    if tzinfo is None:
        return None
    off = tzinfo.utcoffset(None)
    if isinstance(off, _DuckDelta):
        return off.total // 60 if off.total % 60 == 0 else ("secs", off.total)
    return int(off.total_seconds()) // 60


def dt_roundtrip(kind, cal, ms, has_off, off):
    cls = useful.GeneralizedTime if kind == 0 else useful.UTCTime
    corpus = CAL + CAL_GT_ONLY if kind == 0 else CAL_UTC
    if cal >= len(corpus):
        raise Skip()
    base = corpus[cal]
    if kind == 1 and ms != 0:
        raise Skip()
    offm = off if has_off else None
    if vs.SYMBOLIC:
        if not hasattr(useful, "datetime"):
            raise Skip()
        saved = useful.datetime
        useful.datetime = _ModuleShim
        try:
            value = cls.fromDateTime(_DuckDT(base, ms, offm))
            res = value.asDateTime
        finally:
            useful.datetime = saved
        _tag, rdt, rms, rtz = res
        if rdt != base:
            return "calendar fields changed"
        if rms != ms * 1000:
            return "sub-second part changed: %s -> %s microseconds" % (ms * 1000, rms)
        got = _tz_minutes(rtz)
        want = 0 if offm is None else offm
        if got != want:
            return "UTC offset changed: %s -> %s minutes" % (want, got)
        return None
    tz = real_datetime.timezone(real_datetime.timedelta(minutes=offm)) if offm is not None else None
    dt = base.replace(microsecond=ms * 1000, tzinfo=tz)
    value = cls.fromDateTime(dt)
    back = value.asDateTime
    want = dt if tz is not None else dt.replace(tzinfo=real_datetime.timezone.utc)  # a datetime without offset is taken as UTC
    if back.tzinfo is None:
        return "offset lost"
    if back != want:
        return "instant changed: %s -> %s (text %s)" % (want, back, value)
    if back.utcoffset() != want.utcoffset():
        return "UTC offset changed: %s -> %s (text %s)" % (want.utcoffset(), back.utcoffset(), value)
    return None


def dt_x680(cal, ms):
    """The text fromDateTime() produces, read per X.680 (fraction = decimal fraction of a second), denotes the given instant."""
    base = CAL[cal]
    if vs.SYMBOLIC:
        value = useful.GeneralizedTime.fromDateTime(_DuckDT(base, ms, None))
    else:
        value = useful.GeneralizedTime.fromDateTime(base.replace(microsecond=ms * 1000, tzinfo=real_datetime.timezone.utc))
    text = str(value)
    if "." not in text:
        frac_digits = ""
    else:
        frac_digits = text.partition(".")[2].rstrip("Z")
    # value of the fraction in units of 10^-6 s
    digits = (frac_digits + "000000")[:6]
    micro = int(digits) if digits else 0
    if micro != ms * 1000:
        return "fraction '.%s' read per X.680 is %d microseconds, the datetime had %d" % (frac_digits, micro, ms * 1000)
    return None


BASES = ["20170801120112", "201708011201", "19991231235959"]
UBASES = ["170801120112", "1708011201", "991231235959"]
SUFFIX = ["Z", "+0130", "-0200", ""]


def cer_canon(kind, der, base, flen, d1, d2, d3, sep, suffix, d4=0, d5=0, d6=0):
    if kind == 0:
        cls, b = useful.GeneralizedTime, BASES[base]
    else:
        cls, b = useful.UTCTime, UBASES[base]
        if sep != 0:
            raise Skip()  # UTCTime has no fraction
    frac = (chr(48 + d1) + chr(48 + d2) + chr(48 + d3) + chr(48 + d4) + chr(48 + d5) + chr(48 + d6))[:flen]
    if sep == 0:
        if flen:
            raise Skip()
        text = b + SUFFIX[suffix]
    else:
        text = b + (".", ",")[sep - 1] + frac + SUFFIX[suffix]
    enc = der_encoder if der else cer_encoder
    must_refuse = suffix != 0 or sep == 2
    # canonical form: trailing zeros stripped, no dangling dot
    stripped = frac
    while stripped.endswith("0"):
        stripped = stripped[:-1]
    want = b + ("." + stripped if stripped else "") + "Z"
    try:
        out = enc.encode(cls(text))
    except error.PyAsn1Error:
        if must_refuse or not (12 < len(want) < 19):
            return None  # (the library limits time strings to 13..18 characters: a value whose CANONICAL form is longer may be refused)
        return "a UTC value whose canonical form %r is within the library's limits was refused: %s" % (want, text)
    if must_refuse:
        return "non-canonical input accepted (%s)" % ("not UTC / no Z" if suffix != 0 else "comma")
    content = out[2:]
    if content != want.encode("ascii"):
        return "canonical encoder emitted %r for %r, expected %r" % (content, text, want)
    if out[0] != (24 if kind == 0 else 23) or out[1] != len(content):
        return "identifier/length octets wrong"
    return None


OBLIGATIONS = [
    Obl("dt_roundtrip_gt", dt_roundtrip, {"kind": C(0), "cal": I(0, 9), "ms": I(0, 999), "has_off": B, "off": I(-840, 840)}, thorough={"off": I(-1439, 1439)},
        shards=[{"cal": C(c)} for c in range(10)], budget=120,
        doc="GeneralizedTime.fromDateTime -> asDateTime: same millisecond, same whole-minute offset, for every ms and offset in range"),
    Obl("dt_roundtrip_utc", dt_roundtrip, {"kind": C(1), "cal": I(0, len(CAL_UTC) - 1), "ms": C(0), "has_off": B, "off": I(-840, 840)}, thorough={"off": I(-1439, 1439)},
        shards=[{"cal": C(c)} for c in range(len(CAL_UTC))], budget=120, doc="UTCTime.fromDateTime -> asDateTime (second precision)"),
    Obl("dt_x680", dt_x680, {"cal": I(0, 2), "ms": I(0, 999)}, budget=60,
        doc="fromDateTime() text read per X.680 denotes the datetime's instant"),
    Obl("cer_canon", cer_canon, {"kind": I(0, 1), "der": B, "base": I(0, 2), "flen": I(0, 6), "d1": I(0, 9), "d2": I(0, 9), "d3": I(0, 9), "d4": I(0, 9), "d5": I(0, 9), "d6": I(0, 9), "sep": I(0, 2), "suffix": I(0, 3)},
        shards=[{"kind": C(k), "der": C(d), "base": C(b)} for k in (0, 1) for d in (False, True) for b in range(3)], budget=150,
        doc="CER/DER time encoders: refuse non-UTC/comma/no-Z, emit exactly the canonical text otherwise"),
]
