"""C04 - DER/CER bytes depend only on the abstract value, not on how it was built."""
from pyasn1.codec.ber import decoder as ber_decoder
from pyasn1.codec.ber import encoder as ber_encoder
from pyasn1.codec.cer import decoder as cer_decoder
from pyasn1.codec.cer import encoder as cer_encoder
from pyasn1.codec.der import decoder as der_decoder
from pyasn1.codec.der import encoder as der_encoder

from pyasn1 import error

from props.common import *
from vfw import x690ref as R

BOUNDS = ("constructed schemas of the catalogue (and leaves for the decode/clone/read routes), presence flags, lengths, CHOICE alternatives and element counts symbolic, scalar contents fixed (the read-only operations print them); second construction history chosen by a "
          "symbolic route: members assigned in reverse order / SET OF members inserted in a rotated order (rotation symbolic), every absent DEFAULT member assigned explicitly "
          "to its default, decoded from the indefinite chunked BER form, decoded from DER, decoded from CER, clone(cloneValueFlag=True), another value of the same type sent through the DER/CER encoders first, every container filled by position in descending order (and that followed by a clone); a symbolic selection of read-only "
          "operations (quick: none / each single one / all; thorough: every subset of the 8) executed before encoding (DER encode, CER encode, prettyPrint, str, iteration, ==, keys/values/items, getComponentByPosition(i) for every i with "
          "instantiate=False, isValue)")
OUTSIDE = "histories mixing more than one route; containers without a declared component type"


def _known_der_mismatch(sid, slots):
    """Regions where DER output differs from the reference for reasons recorded as known findings of C03 (not C04's subject)."""
    from vfw.findings_lib import empty_optional

    return empty_optional(sid, dict(slots, sid=sid))


def build_alt(t, av, rot, explicit_defaults):
    """Same abstract value as schema.build(t, av), built by a different history."""
    k = t.kind
    spec = mk_type(t)
    if k in ("SEQ", "SET"):
        o = spec.clone()
        for (name, ct, mode, dflt) in reversed(t.comps):
            if name in av:
                o.setComponentByName(name, build_alt(ct, av[name], rot, explicit_defaults))
            elif mode == "def" and explicit_defaults:
                o.setComponentByName(name, build_alt(ct, dflt, rot, explicit_defaults))
        return o
    if k == "SETOF":
        o = spec.clone()
        items = list(av)
        n = len(items)
        if n:
            r = rot % n
            items = items[r:] + items[:r]
        for x in items:
            o.append(build_alt(t.elem, x, rot, explicit_defaults))
        if not items:
            o.clear()
        return o
    if k == "SEQOF":
        o = spec.clone()
        o.clear()
        o.extend([build_alt(t.elem, x, rot, explicit_defaults) for x in av])
        return o
    if k == "CHOICE":
        o = spec.clone()
        name, inner = av
        ct = [c for c in t.comps if c[0] == name][0][1]
        # select another alternative first, then the right one
        o[name] = build_alt(ct, inner, rot, explicit_defaults)
        return o
    return build(t, av)


def build_rev(t, av):
    """Same abstract value, every container filled by position in descending order (SEQUENCE OF/SET OF: sparse, last position first)."""
    k = t.kind
    spec = mk_type(t)
    if k in ("SEQ", "SET"):
        o = spec.clone()
        for idx in reversed(range(len(t.comps))):
            name, ct, mode, dflt = t.comps[idx]
            if name in av:
                o.setComponentByPosition(idx, build_rev(ct, av[name]))
        return o
    if k in ("SEQOF", "SETOF"):
        o = spec.clone()
        for idx in reversed(range(len(av))):
            o.setComponentByPosition(idx, build_rev(t.elem, av[idx]))
        if not av:
            o.clear()
        return o
    if k == "CHOICE":
        o = spec.clone()
        name, inner = av
        ct = [c for c in t.comps if c[0] == name][0][1]
        o.setComponentByName(name, build_rev(ct, inner))
        return o
    return build(t, av)


def _reads(v, t, mask):
    if mask % 2:
        der_encoder.encode(v)
    if (mask // 2) % 2:
        cer_encoder.encode(v)
    if (mask // 4) % 2:
        v.prettyPrint()
    if (mask // 8) % 2:
        str(v)
    if (mask // 16) % 2:
        v == v
        v != v
    if (mask // 32) % 2:
        v.isValue
    if t.kind in ("SEQ", "SET", "SEQOF", "SETOF", "CHOICE"):
        if (mask // 64) % 2:
            for _ in v:
                pass
            if t.kind in ("SEQ", "SET", "CHOICE"):
                list(v.keys())
                list(v.values())
                list(v.items())
        if (mask // 128) % 2:
            n = len(t.comps) if t.kind in ("SEQ", "SET", "CHOICE") else len(v)
            for i in range(n):
                v.getComponentByPosition(i, default=None, instantiate=False)


MASKS = (0, 1, 2, 4, 8, 16, 32, 64, 128, 255, 3, 192)


def _sibling_slots(e, slots, flip_flags):
    """Another value of the same type: alternative/count selectors moved on; optionally the presence flags flipped as well."""
    out = dict(slots)
    for k, spec in e.params.items():
        if k not in out:
            continue
        if spec[0] == "bool":
            if flip_flags:
                out[k] = not out[k]
        elif k in ("w", "k", "k2") and spec[0] == "int":
            out[k] = spec[1] + (out[k] - spec[1] + 1) % (spec[2] - spec[1] + 1)
    return out


def history(sid, route, rot, mi, interfere=False, **slots):
    mask = MASKS[mi] if mi < len(MASKS) else mi - len(MASKS)
    e = by_id(sid)
    t = e.t
    av = e.mk(**slots)
    if interfere:
        # another value of the same type (same type object) goes through the DER and CER encoders first: what the encoders did for it
        # must not influence the bytes of this value
        for flip in (False, True):
            try:
                other = build(t, e.mk(**_sibling_slots(e, slots, flip)))
                der_encoder.encode(other)
                cer_encoder.encode(other)
            except (Skip, error.PyAsn1Error):
                pass
    v1 = build(t, av)
    d1 = der_encoder.encode(v1)
    c1 = cer_encoder.encode(v1)
    if interfere:
        fresh_d = bytes(R.der(t, av))
        if d1 != fresh_d and not _known_der_mismatch(sid, slots):
            return "DER bytes of a value depend on which other value of the type was encoded before"
    spec = mk_type(t)
    if route == 0:
        v2 = build_alt(t, av, rot, False)
    elif route == 1:
        v2 = build_alt(t, av, rot, True)
    elif route == 2:
        v2, _ = ber_decoder.decode(substrate(ber_encoder.encode(v1, defMode=False, maxChunkSize=1)), asn1Spec=spec)
    elif route == 3:
        v2, _ = der_decoder.decode(substrate(d1), asn1Spec=spec)
    elif route == 4:
        v2, _ = cer_decoder.decode(substrate(c1), asn1Spec=spec)
    elif route == 5:
        v2 = v1.clone(cloneValueFlag=True) if t.kind in ("SEQ", "SET", "SEQOF", "SETOF", "CHOICE") else v1.clone()
    elif route == 7:
        v2 = build_rev(t, av)
    elif route == 8:
        v2 = build_rev(t, av).clone(cloneValueFlag=True)
    else:
        v2 = build(t, av)
    _reads(v2, t, mask)
    if der_encoder.encode(v2) != d1:
        return "DER bytes differ between two histories of the same abstract value (route %d)" % route
    if cer_encoder.encode(v2) != c1:
        return "CER bytes differ between two histories of the same abstract value (route %d)" % route
    # reads must not have changed v1's sibling either: encode v1 again
    if der_encoder.encode(v1) != d1:
        return "DER of the original changed after it was encoded once"
    return None


OBLIGATIONS = []
FIX = {"o0": C(65), "o2": C(67), "o3": C(0), "i0": C(127), "i1": C(1), "i2": C(0), "c0": C(128), "c1": C(65), "a2": C(128), "o1": C(66), "m": C(3), "e": C(1)}
for e in all_entries():
    quick = e.id in QUICK_IDS and (e.has("constructed") or e.id in ("int", "octs", "bits", "utf8", "bool.E", "int.EI"))
    if not (e.has("constructed") or e.has("leaf")):
        continue
    routes = list(range(9)) if e.has("constructed") else [2, 3, 4, 5, 6]
    fix = dict((k, v) for k, v in FIX.items() if k in e.params and k not in e.shard)
    if "n" in e.params:
        fix["n"] = I(0, 1)
    shards = []
    for r in routes:
        sh = dict(fix, route=C(r))
        if not e.has("setof") or r not in (0, 1):
            sh["rot"] = C(0)
        if r != 6:
            sh["mi"] = I(8, 9)  # one read (getComponentByPosition sweep) or all of them; the full selection runs on route 6
            sh["interfere"] = C(False)  # another value of the type encoded first: on the direct route only
            shards.append(sh)
        else:
            # own shard (= own process): state an encoder might keep per type must not have been touched by other paths before
            shards.append(dict(sh, interfere=C(False)))
            shards.append(dict(sh, interfere=C(True), mi=C(0)))
    OBLIGATIONS.append(entry_obl("history", history, e, extra={"route": I(0, 8), "rot": I(0, 2), "mi": I(0, len(MASKS) - 1), "interfere": B}, extra_thorough={"mi": I(0, len(MASKS) + 255)},
                                 narrow=True, budget=120, thorough_budget=400, extra_shards=shards, tiers=("quick", "thorough") if quick else ("thorough",)))


# ---- open types: re-encoding the decoded (unresolved) value reproduces the DER/CER encoding of the typed value ---------------
def ot_fixpoint(container, tagging, vector, cer, which, n, k, f0, nelem):
    """e = enc(value holding a typed inner value); w = decode(e) without open-type resolution; enc(w) == e (and the same with resolution)."""
    from props import C18

    spec = C18._schema(container, tagging, vector)
    enc, dec = (cer_encoder, cer_decoder) if cer else (der_encoder, der_decoder)
    if container == 1 and tagging == 0:
        raise Skip()  # an untagged open type as a SET member has no determinate tag: not legal ASN.1 (X.680: SET members need distinct tags)
    it = C18.INNER[which]
    iav = C18._inner_av(which, n, 65, 0, f0, k)
    v = spec.clone()
    v["id"] = which
    if vector:
        for _i in range(nelem):
            v["blob"].append(build(it, iav))
        if nelem == 0:
            v["blob"].clear()
    else:
        v["blob"] = build(it, iav)
    e = enc.encode(v)
    w, rest = dec.decode(substrate(e), asn1Spec=spec)
    if len(rest) != 0:
        return "remainder left"
    if enc.encode(w) != e:
        return "re-encoding the decoded open-type value (opaque field) does not reproduce the encoding"
    w2, rest = dec.decode(substrate(e), asn1Spec=spec, decodeOpenTypes=True)
    if enc.encode(w2) != e:
        return "re-encoding the decoded open-type value (resolved field) does not reproduce the encoding"
    return None


OBLIGATIONS.append(Obl("ot_fixpoint", ot_fixpoint,
                       {"container": I(0, 1), "tagging": I(0, 2), "vector": I(0, 2), "cer": B, "which": I(1, 4), "n": I(127, 128), "k": I(0, 1), "f0": B, "nelem": I(0, 2)},
                       shards=[{"container": C(c_), "tagging": C(t_), "vector": C(v_), "cer": C(x_)} for c_ in (0, 1) for t_ in (0, 1, 2) for v_ in (0, 1, 2) for x_ in (False, True)],
                       budget=90, thorough={"n": I(-300, 300)}, doc="DER/CER fixpoint through decode for values holding typed open-type inner values"))

# quick tier: entries added for other properties' sake run in the thorough tier only here
demote(OBLIGATIONS, ['seq_hitags', 'seq_hitags.E', 'seq_wide', 'seq_optnull', 'seqof_choice_cons', 'choice_cons'])
demote(OBLIGATIONS, ['seq.I', 'seq.EE', 'set.E', 'set.EE', 'seqof_int.I', 'seqof_int.EE', 'setof_octs.I', 'setof_octs.EE'])
