"""C19 - container objects refine their Python prototypes under any operation history."""
from pyasn1 import error
from pyasn1.codec.der import encoder as der_encoder
from pyasn1.type import constraint, namedtype, tag, univ

from props.common import *
from vfw import x690ref as R
from vfw.schema import T

BOUNDS = ("histories of N symbolic steps (N = 2 quick, 3 thorough), each step = (operation code, position i in [-3, 4], value x in [0, 9]) over: "
          "SEQUENCE OF INTEGER and SEQUENCE OF SEQUENCE (elements instantiated through the container, 3 steps) with a declared component type - append, __setitem__ (incl. position N = append), extend, slice assignment, clear, reset, sort (plain, and with a tying key in both directions), reverse, "
          "clone(cloneValueFlag=True), setComponentByPosition, readers; SEQUENCE {a INTEGER, b OCTET STRING OPTIONAL, c BOOLEAN DEFAULT TRUE} - set by name/position/"
          "__setitem__, clear, reset, clone, readers, unknown name / out-of-range position; CHOICE - select alternative by name/position/type, clear, reset, readers; "
          "after every step the object is compared with a list / dict / pair model and with the reference DER of the model; schema scalars: 14 operations raise the library error")
OUTSIDE = "histories longer than N; SET OF; containers without a declared component type; SET (shares SEQUENCE's implementation except setComponentByType)"

SEQOF = T("SEQOF", elem=T("INT"))
REC = T("SEQ", comps=[("a", T("INT"), "req", None), ("b", T("OCTS"), "opt", None), ("c", T("BOOL"), "def", True)])
CH = T("CHOICE", comps=[("x", T("INT"), "req", None), ("y", T("OCTS"), "req", None), ("z", T("BOOL").tagged(("E", "C", 2)), "req", None)])


class Ill(Exception):
    pass


# ------------------------------------------------------------------ SEQUENCE OF vs list


def _seqof_view(o):
    return [int(o.getComponentByPosition(i, instantiate=False)) for i in range(len(o))]


def _seqof_check(o, m, step):
    want = [] if m is None else m
    if len(o) != len(want):
        return "step %d: len() is %d, model has %d" % (step, len(o), len(want))
    if o.isValue != (m is not None):
        return "step %d: isValue is %s, model says %s" % (step, o.isValue, m is not None)
    got = _seqof_view(o)
    if got != want:
        return "step %d: content %s, model %s" % (step, got, want)
    if [int(c) for c in o] != want:
        return "step %d: iteration order differs" % step
    if m is not None:
        if der_encoder.encode(o) != bytes(R.der(SEQOF, want)):
            return "step %d: DER differs from the DER of the model" % step
    return None


def _seqof_readers(o, m, i, x):
    want = [] if m is None else m
    n = len(want)
    len(o)
    list(o)
    if m is None:
        return None  # other readers are entitled to fail with the library's error on a schema object
    if (x in o) != (x in want):
        return "membership differs"
    if o.count(x) != want.count(x):
        return "count() differs"
    if 0 <= i < n or -n <= i < 0:
        if int(o[i]) != want[i]:
            return "__getitem__(%d) differs" % i
        if int(o.getComponentByPosition(i)) != want[i]:
            return "getComponentByPosition differs"
    o.getComponentByPosition(i if i >= 0 else 0, instantiate=False) if i < 4 else None
    if x in want and o.index(x) != want.index(x):
        return "index() differs"
    o.prettyPrint()
    o == o
    if m is not None:
        der_encoder.encode(o)
    return None


def seqof_history(n_steps, ops, strict_range=False):
    o = mk_type(SEQOF).clone()
    m = None
    for step, (op, i, x) in enumerate(ops[:n_steps]):
        before = None if m is None else list(m)
        illformed = False
        try:
            if op == 0:
                o.append(x)
                m = (m or []) + [x]
            elif op == 1 or op == 9:
                n = len(m or [])
                if i > n or i < -n:
                    illformed = True
                    if i > n and not strict_range:
                        raise Skip()  # known finding F-sparse-position: covered by the strict variant only
                if op == 1:
                    o[i] = x
                else:
                    o.setComponentByPosition(i, x)
                if not illformed:
                    m = list(m or [])
                    if i == n:
                        m.append(x)
                    else:
                        m[i] = x
            elif op == 2:
                o.extend([x, x + 1])
                m = (m or []) + [x, x + 1]
            elif op == 3:
                o.clear()
                m = []
            elif op == 4:
                o.reset()
                m = None
            elif op == 5:
                if m is None:
                    raise Skip()
                o.sort()
                m = sorted(m)
            elif op == 6:
                if m is None:
                    raise Skip()
                o.reverse()
                m = list(reversed(m))
            elif op == 11 or op == 12:
                # sort with a key that ties neighbouring values, ascending and descending: list.sort is stable in both directions
                if m is None:
                    raise Skip()
                o.sort(key=lambda v_: int(v_) // 2, reverse=(op == 11))
                m = sorted(m, key=lambda v_: v_ // 2, reverse=(op == 11))
            elif op == 13:
                # a value OBJECT of a legitimate subtype (range-constrained) is stored; later plain Python values
                # assigned to the same position are values of the declared component type, not of that leftover subtype
                n = len(m or [])
                if not (0 <= i <= n):
                    raise Skip()
                sub = univ.Integer().subtype(subtypeSpec=constraint.ValueRangeConstraint(0, 4))
                o.setComponentByPosition(i, sub.clone(x % 5))
                m = list(m or [])
                if i == n:
                    m.append(x % 5)
                else:
                    m[i] = x % 5
            elif op == 7:
                o = o.clone(cloneValueFlag=True)
            elif op == 8:
                msg = _seqof_readers(o, m, i, x)
                if msg:
                    return "step %d: reader: %s" % (step, msg)
            elif op == 10:
                n = len(m or [])
                if not (0 <= i <= n) or (i < n and i + 2 != n and i + 2 < n):
                    raise Skip()
                # overwrite-or-extend slices only: the library assigns position by position and never shrinks
                o[i:i + 2] = [x, x]
                m = list(m or [])
                m[i:i + 2] = [x, x]
            else:
                raise Skip()
        except (IndexError, KeyError, error.PyAsn1Error):
            if not illformed:
                return "step %d: well-formed operation %d raised" % (step, op)
            m = before
        else:
            if illformed:
                return "step %d: position %d outside the documented range accepted (length %d)" % (step, i, len(before or []))
        msg = _seqof_check(o, m, step)
        if msg:
            return msg
    return None


def seqof2(op0, i0, x0, op1, i1, x1, strict_range):
    return seqof_history(2, [(op0, i0, x0), (op1, i1, x1)], strict_range)


def seqof3(op0, i0, x0, op1, i1, x1, op2, i2, x2):
    return seqof_history(3, [(op0, i0, x0), (op1, i1, x1), (op2, i2, x2)])


# ------------------------------------------------------------------ SEQUENCE OF SEQUENCE vs list of dicts (auto-instantiated elements)

SOFREC = T("SEQOF", elem=T("SEQ", comps=[("a", T("INT"), "req", None), ("b", T("INT"), "opt", None)]))


def _sofrec_view(o):
    out = []
    for i in range(len(o)):
        el = o.getComponentByPosition(i, instantiate=False)
        d = {}
        for j, name in enumerate(("a", "b")):
            c = el.getComponentByPosition(j, default=None, instantiate=False)
            if c is not None:
                d[name] = int(c)
        out.append(d)
    return out


def sofrec_history(n_steps, ops):
    o = mk_type(SOFREC).clone()
    o2 = mk_type(SOFREC).clone()  # a sibling container of the same type: must never be affected
    m = None
    for step, (op, i, x) in enumerate(ops[:n_steps]):
        try:
            n = len(m or [])
            if op == 0:
                # element addressed through the container: position n instantiates a fresh element (documented)
                if not (0 <= i <= n):
                    raise Skip()
                o[i]["a"] = x
                m = list(m or [])
                if i == n:
                    m.append({})
                m[i] = dict(m[i], a=x)
            elif op == 1:
                if not (0 <= i <= n):
                    raise Skip()
                o[i]["b"] = x
                m = list(m or [])
                if i == n:
                    m.append({})
                m[i] = dict(m[i], b=x)
            elif op == 2:
                o.clear()
                m = []
            elif op == 3:
                o.reset()
                m = None
            elif op == 4:
                o = o.clone(cloneValueFlag=True)
            elif op == 5:
                len(o)
                list(o)
                if m is not None and all("a" in d for d in m):
                    der_encoder.encode(o)
            else:
                raise Skip()
        except (IndexError, KeyError, error.PyAsn1Error):
            return "step %d: well-formed operation %d raised" % (step, op)
        got = _sofrec_view(o)
        if got != (m or []):
            return "step %d: content %s, model %s" % (step, got, m or [])
        if len(o2) != 0 or o2.isValue:
            return "step %d: a sibling container of the same type was affected" % step
        if m is not None and all("a" in d for d in m):
            if not o.isValue:
                return "step %d: isValue is False for a complete value" % step
            if der_encoder.encode(o) != bytes(R.der(SOFREC, m)):
                return "step %d: DER differs from the DER of the model" % step
    return None


def sofrec3(op0, i0, x0, op1, i1, x1, op2, i2, x2):
    return sofrec_history(3, [(op0, i0, x0), (op1, i1, x1), (op2, i2, x2)])


# ------------------------------------------------------------------ SEQUENCE with a nested SEQUENCE vs dict of dicts (partially filled members)

NREC = T("SEQ", comps=[("id", T("INT"), "req", None), ("inner", T("SEQ", comps=[("x", T("INT"), "req", None), ("y", T("INT"), "req", None)]), "req", None),
                       ("l", T("SEQOF", elem=T("INT")), "opt", None)])


def _nrec_view(o):
    out = {}
    c = o.getComponentByPosition(0, default=None, instantiate=False)
    if c is not None:
        out["id"] = int(c)
    # (a partially filled member is not a value yet, so the non-instantiating public accessor hides it: look at the store)
    from pyasn1.type.base import noValue

    cv = o._componentValues
    inner = None
    if cv is not noValue and len(cv) > 1 and cv[1] is not noValue:
        inner = cv[1]
    if inner is not None:
        d = {}
        for j, name in enumerate(("x", "y")):
            cc = inner.getComponentByPosition(j, default=None, instantiate=False)
            if cc is not None:
                d[name] = int(cc)
        if d:
            out["inner"] = d
    l = o.getComponentByPosition(2, default=None, instantiate=False)
    if l is not None:
        out["l"] = [int(e_) for e_ in l]
    return out


def nrec_history(n_steps, ops):
    """Members of the nested record are filled one by one through the container (so it is incomplete in between); clone, clear and reads in between."""
    o = mk_type(NREC).clone()
    m = None
    for step, (op, x) in enumerate(ops[:n_steps]):
        try:
            if op == 0:
                o["id"] = x
                m = dict(m or {}, id=x)
            elif op == 1:
                o["inner"]["x"] = x
                m = dict(m or {})
                m["inner"] = dict(m.get("inner", {}), x=x)
            elif op == 2:
                o["inner"]["y"] = x
                m = dict(m or {})
                m["inner"] = dict(m.get("inner", {}), y=x)
            elif op == 3:
                o = o.clone(cloneValueFlag=True)
            elif op == 4:
                o.clear()
                m = {}
            elif op == 5:
                o["l"].append(x)
                m = dict(m or {})
                m["l"] = list(m.get("l", [])) + [x]
            elif op == 6:
                len(o)
                list(o.keys())
                o.isValue
                o.prettyPrint()
            else:
                raise Skip()
        except (IndexError, KeyError, error.PyAsn1Error):
            return "step %d: well-formed operation %d raised" % (step, op)
        got = _nrec_view(o)
        if got != (m or {}):
            return "step %d: content %s, model %s" % (step, got, m or {})
        complete = m is not None and "id" in m and len(m.get("inner", {})) == 2
        if o.isValue != bool(complete):
            return "step %d: isValue is %s, the model is %scomplete" % (step, o.isValue, "" if complete else "in")
        if complete and der_encoder.encode(o) != bytes(R.der(NREC, m)):
            return "step %d: DER differs from the DER of the model" % step
    return None


def nrec3(op0, x0, op1, x1, op2, x2):
    return nrec_history(3, [(op0, x0), (op1, x1), (op2, x2)])


def nrec4(op0, x0, op1, x1, op2, x2, op3, x3):
    return nrec_history(4, [(op0, x0), (op1, x1), (op2, x2), (op3, x3)])


# ------------------------------------------------------------------ SEQUENCE vs dict

NAMES = ("a", "b", "c")


def _rec_view(o):
    out = {}
    for idx, name in enumerate(NAMES):
        c = o.getComponentByPosition(idx, default=None, instantiate=False)
        if c is not None:
            out[name] = int(c) if name != "b" else c.asOctets()
    if out.get("c") == 1:
        del out["c"]  # c BOOLEAN DEFAULT TRUE: present-and-TRUE is the same abstract content as absent
    return out


def _rec_model_val(name, x):
    if name == "a":
        return x
    if name == "b":
        return bytes([65 + x])
    return x % 2


def _rec_check(o, m, step):
    got = _rec_view(o)
    want = {} if m is None else dict(m)
    if want.get("c") == 1:
        del want["c"]
    if got != want:
        return "step %d: content %s, model %s" % (step, got, want)
    complete = m is not None and "a" in m
    if o.isValue != complete:
        return "step %d: isValue is %s, model says %s" % (step, o.isValue, complete)
    if complete:
        av = {"a": m["a"]}
        if "b" in m:
            av["b"] = m["b"]
        if "c" in m:
            av["c"] = bool(m["c"])
        if der_encoder.encode(o) != bytes(R.der(REC, av)):
            return "step %d: DER differs from the DER of the model" % step
    return None


def rec_history(n_steps, ops):
    o = mk_type(REC).clone()
    m = None
    for step, (op, i, x) in enumerate(ops[:n_steps]):
        before = None if m is None else dict(m)
        illformed = False
        try:
            if op in (0, 1, 2):
                if not (0 <= i <= 2):
                    illformed = True
                    name = "nosuch"
                else:
                    name = NAMES[i]
                val = _rec_model_val(name if not illformed else "a", x)
                if op == 0:
                    o.setComponentByName(name, val)
                elif op == 1:
                    o.setComponentByPosition(i if not illformed else (5 if i > 0 else -5), val)
                else:
                    o[name] = val
                if not illformed:
                    m = dict(m or {})
                    m[name] = val
            elif op == 3:
                o.clear()
                m = {}
            elif op == 4:
                o.reset()
                m = None
            elif op == 5:
                o = o.clone(cloneValueFlag=True)
            elif op == 6:
                # readers (on a schema-state object they are entitled to fail with the library's error)
                try:
                    len(o)
                    list(o)
                    list(o.keys())
                    o.prettyPrint()
                    o == o
                except error.PyAsn1Error:
                    if o.isValue or (m is not None and len(m)):
                        raise
                for idx, name in enumerate(NAMES):
                    o.getComponentByPosition(idx, default=None, instantiate=False)
                    o.getComponentByName(name, default=None, instantiate=False)
                if (m is not None and "a" in m):
                    der_encoder.encode(o)
                if ("a" in o) != True:
                    return "step %d: declared member name not `in` the SEQUENCE" % step
            elif op == 7:
                illformed = True
                o.getComponentByName("nosuch")
            elif op == 8:
                illformed = True
                o.getComponentByPosition(7)
            else:
                raise Skip()
        except (IndexError, KeyError, error.PyAsn1Error):
            if not illformed:
                return "step %d: well-formed operation %d raised" % (step, op)
            m = before
        else:
            if illformed:
                return "step %d: ill-formed operation %d (unknown name / position out of range) did not raise" % (step, op)
        msg = _rec_check(o, m, step)
        if msg:
            return msg
    return None


def rec2(op0, i0, x0, op1, i1, x1):
    return rec_history(2, [(op0, i0, x0), (op1, i1, x1)])


def rec3(op0, i0, x0, op1, i1, x1, op2, i2, x2):
    return rec_history(3, [(op0, i0, x0), (op1, i1, x1), (op2, i2, x2)])


# ------------------------------------------------------------------ CHOICE vs (name, value) pair

CNAMES = ("x", "y", "z")


def _ch_val(name, x):
    if name == "x":
        return x
    if name == "y":
        return bytes([65 + x])
    return x % 2


def _ch_check(o, m, step):
    n = len(o)
    if n > 1:
        return "step %d: CHOICE holds %d alternatives" % (step, n)
    if (m is None) != (n == 0):
        return "step %d: len() is %d, model %s" % (step, n, m)
    if o.isValue != (m is not None):
        return "step %d: isValue is %s, model says %s" % (step, o.isValue, m is not None)
    if list(o) != ([] if m is None else [m[0]]):
        return "step %d: iteration yields %s" % (step, list(o))
    set_count = 0
    for idx in range(3):
        c = o.getComponentByPosition(idx, default=None, instantiate=False)
        if c is not None:
            set_count += 1
    if set_count != (0 if m is None else 1):
        return "step %d: %d alternatives carry a value" % (step, set_count)
    if m is not None:
        if o.getName() != m[0]:
            return "step %d: chosen alternative is %s, model %s" % (step, o.getName(), m[0])
        c = o.getComponent()
        got = c.asOctets() if m[0] == "y" else int(c)
        if got != m[1]:
            return "step %d: chosen value differs" % step
        av = (m[0], bool(m[1]) if m[0] == "z" else m[1])
        if der_encoder.encode(o) != bytes(R.der(CH, av)):
            return "step %d: DER differs from the DER of the model" % step
    return None


def ch_history(n_steps, ops):
    o = mk_type(CH).clone()
    m = None
    for step, (op, i, x) in enumerate(ops[:n_steps]):
        before = m
        illformed = False
        try:
            if op in (0, 1, 2, 3):
                if not (0 <= i <= 2):
                    illformed = True
                name = CNAMES[i] if not illformed else "nosuch"
                val = _ch_val(name if not illformed else "x", x)
                if op == 0:
                    o.setComponentByName(name, val)
                elif op == 1:
                    o.setComponentByPosition(i if not illformed else 7, val)
                elif op == 2:
                    o[name] = val
                else:
                    if illformed:
                        o.setComponentByType(univ.Real.tagSet, val)
                    else:
                        o.setComponentByType(mk_type(CH.comps[i][1]).tagSet, val)
                if not illformed:
                    m = (name, val)
            elif op == 4:
                o.clear()
                m = None
            elif op == 5:
                o.reset()
                m = None
            elif op == 6:
                o = o.clone(cloneValueFlag=True)
            elif op == 7:
                len(o)
                list(o)
                list(o.keys())
                list(o.values())
                list(o.items())
                ("x" in o)
                try:
                    o.prettyPrint()
                except error.PyAsn1Error:
                    if m is not None:
                        raise
                if m is not None:
                    o == o
                    der_encoder.encode(o)
            else:
                raise Skip()
        except (IndexError, KeyError, error.PyAsn1Error):
            if not illformed:
                return "step %d: well-formed operation %d raised" % (step, op)
            m = before
        else:
            if illformed:
                return "step %d: ill-formed operation %d did not raise" % (step, op)
        msg = _ch_check(o, m, step)
        if msg:
            return msg
    return None


def ch2(op0, i0, x0, op1, i1, x1):
    return ch_history(2, [(op0, i0, x0), (op1, i1, x1)])


def ch3(op0, i0, x0, op1, i1, x1, op2, i2, x2):
    return ch_history(3, [(op0, i0, x0), (op1, i1, x1), (op2, i2, x2)])


# ------------------------------------------------------------------ schema scalars


def schema_scalar(kind, op, x):
    s = (univ.Integer(), univ.OctetString(), univ.BitString(), univ.Boolean(), univ.Real(), univ.ObjectIdentifier(), univ.Enumerated())[kind]
    try:
        if op == 0:
            r = s + x
        elif op == 1:
            r = int(s)
        elif op == 2:
            r = s == x
        elif op == 3:
            r = s < x
        elif op == 4:
            r = len(s)
        elif op == 5:
            r = str(s)
        elif op == 6:
            r = bool(s)
        elif op == 7:
            r = hash(s)
        elif op == 8:
            r = s * 2
        elif op == 9:
            r = float(s)
        elif op == 10:
            r = list(iter(s))
        elif op == 11:
            r = s[0]
        elif op == 12:
            r = -s
        else:
            r = s != x
    except error.PyAsn1Error:
        return None
    except (TypeError, AttributeError):
        # the type does not define the operation at all (e.g. len() of an Integer): not "returning data"
        return None
    return "operation %d on a schema (valueless) %s object returned %r instead of failing with the library's error" % (op, type(s).__name__, r)


STEP = {"op": I(0, 10), "i": I(-3, 4), "x": I(0, 9)}


def _params(n, nops):
    p = {}
    for k in range(n):
        p["op%d" % k] = I(0, nops)
        p["i%d" % k] = I(-3, 4)
        p["x%d" % k] = I(0, 9)
    return p


def _first_op_shards(nops, extra=None):
    return [dict({"op0": C(o)}, **(extra or {})) for o in range(nops + 1)]


OBLIGATIONS = [
    Obl("nrec3", nrec3, {"op0": I(0, 6), "x0": I(0, 9), "op1": I(0, 6), "x1": I(0, 9), "op2": I(0, 6), "x2": I(0, 9)}, shards=[{"op0": C(a)} for a in range(7)], budget=120,
        doc="SEQUENCE with a nested SEQUENCE filled member by member (incomplete in between), clone/clear/reads in between, vs dict of dicts; every 3-step history"),
    Obl("nrec4", nrec4, {"op0": I(0, 6), "x0": I(0, 9), "op1": I(0, 6), "x1": I(0, 9), "op2": I(0, 6), "x2": I(0, 9), "op3": I(0, 6), "x3": I(0, 9)},
        shards=[{"op0": C(a), "op1": C(b)} for a in range(7) for b in range(7)], thorough_budget=300, tiers=("thorough",)),
    Obl("seqof2", seqof2, dict(_params(2, 13), strict_range=B), shards=_first_op_shards(13), budget=120, tiers=("quick", "thorough"), doc="SEQUENCE OF INTEGER vs list, every 2-step history"),
    Obl("seqof3", seqof3, _params(3, 13), shards=[{"op0": C(a), "op1": C(b)} for a in range(14) for b in range(14)], thorough_budget=300, tiers=("thorough",)),
    Obl("sofrec3", sofrec3, dict((k, (I(0, 5) if k.startswith("op") else I(0, 2) if k.startswith("i") else I(0, 9))) for k in _params(3, 5)),
        shards=[{"op0": C(a), "op1": C(b)} for a in range(6) for b in range(6)], budget=120,
        doc="SEQUENCE OF SEQUENCE with elements instantiated through the container vs a list of dicts, every 3-step history"),
    Obl("rec2", rec2, _params(2, 8), shards=_first_op_shards(8), budget=120, doc="SEQUENCE with OPTIONAL/DEFAULT vs dict, every 2-step history"),
    Obl("rec3", rec3, _params(3, 8), shards=[{"op0": C(a), "op1": C(b)} for a in range(9) for b in range(9)], thorough_budget=300, tiers=("thorough",)),
    Obl("ch2", ch2, _params(2, 7), shards=_first_op_shards(7), budget=120, doc="CHOICE vs (name, value) pair, every 2-step history"),
    Obl("ch3", ch3, _params(3, 7), shards=[{"op0": C(a), "op1": C(b)} for a in range(8) for b in range(8)], thorough_budget=300, tiers=("thorough",)),
    Obl("schema_scalar", schema_scalar, {"kind": I(0, 6), "op": I(0, 13), "x": I(0, 3)}, budget=60, doc="arithmetic/conversion/comparison on valueless scalars fails with the library error"),
]
