"""C14 - constraints mean what set theory says and cannot be bypassed."""
import itertools

from pyasn1 import error
from pyasn1.codec.ber import decoder as ber_decoder
from pyasn1.codec.der import encoder as der_encoder
from pyasn1.type import char, constraint, namedtype, tag, univ

from props.common import *

BOUNDS = ("constraint expression trees: all trees of depth <= 2 (quick, subsampled deterministically to 120) / depth <= 3 (thorough, 600) over "
          "{SingleValue, ValueRange, ContainedSubtype(constraint), Intersection, Union, Exclusion} on integers with parameters from {-5, 0, 3, 10, 100}, "
          "candidate value symbolic in [-30, 130]; size/alphabet trees over {ValueSize, PermittedAlphabet, Intersection, Union, Exclusion} on strings of "
          "length <= 3 over the alphabet {a, b, z, 0}; component presence/absence/WithComponents on a 3-member SEQUENCE with symbolic presence flags; "
          "no-bypass: 20 value-producing operations of Integer/OctetString/BitString/character strings with symbolic operands; derivation chains of length 3")
OUTSIDE = "trees deeper than 3; the empty union, and an empty intersection at top level (admit everything by construction; as operands they are covered by empty_operand); ContainedSubtypeConstraint with literal operands (finding)"

P = (-5, 0, 3, 10, 100)

# ---------------------------------------------------------------- integer trees: (constructor, denotation)


def _int_leaves():
    out = []
    for a in P:
        out.append((("SV", (a,)), None))
    out.append((("SV", (0, 3, 100)), None))
    for a, b in ((-5, 3), (0, 10), (3, 100), (10, 10)):
        out.append((("VR", (a, b)), None))
    return [x[0] for x in out]


def _trees(depth, leaves):
    if depth == 0:
        return list(leaves)
    sub = _trees(depth - 1, leaves)
    out = list(sub)
    pick = sub[:: max(1, len(sub) // 7)][:7]
    for op in ("AND", "OR"):
        for a, b in itertools.combinations(pick, 2):
            out.append((op, (a, b)))
    for a in pick:
        out.append(("NOT", (a,)))
        out.append(("INCL", (a,)))
    out.append(("AND", tuple(pick[:3])))
    out.append(("OR", tuple(pick[-3:])))
    out.append(("NOT", tuple(pick[:2])))
    return out


def mk_constraint(tr):
    op, args = tr
    if op == "SV":
        return constraint.SingleValueConstraint(*args)
    if op == "VR":
        return constraint.ValueRangeConstraint(*args)
    if op == "VS":
        return constraint.ValueSizeConstraint(*args)
    if op == "PA":
        return constraint.PermittedAlphabetConstraint(*args)
    subs = [mk_constraint(a) for a in args]
    if op == "AND":
        return constraint.ConstraintsIntersection(*subs)
    if op == "OR":
        return constraint.ConstraintsUnion(*subs)
    if op == "NOT":
        return constraint.ConstraintsExclusion(*subs)
    if op == "INCL":
        return constraint.ContainedSubtypeConstraint(*subs)
    raise ValueError(op)


def den(tr, v):
    """Set-theoretic denotation, written directly."""
    op, args = tr
    if op == "SV":
        for a in args:
            if v == a:
                return True
        return False
    if op == "VR":
        return args[0] <= v and v <= args[1]
    if op == "VS":
        return args[0] <= len(v) and len(v) <= args[1]
    if op == "PA":
        for ch in v:
            if ch not in args:
                return False
        return True
    if op == "AND" or op == "INCL":
        for a in args:
            if not den(a, v):
                return False
        return True
    if op == "OR":
        for a in args:
            if den(a, v):
                return True
        return False
    if op == "NOT":
        # ConstraintsExclusion(c1, .., cn): the value satisfies none of the operands
        for a in args:
            if den(a, v):
                return False
        return True
    raise ValueError(op)


INT_TREES = {}
STR_TREES = {}


def _int_trees(tier):
    if tier not in INT_TREES:
        d = 2 if tier == "quick" else 3
        cap = 120 if tier == "quick" else 600
        ts = _trees(d, _int_leaves())
        step = max(1, len(ts) // cap)
        INT_TREES[tier] = ts[::step][:cap]
    return INT_TREES[tier]


def _str_trees(tier):
    if tier not in STR_TREES:
        leaves = [("VS", (0, 1)), ("VS", (1, 2)), ("VS", (2, 3)), ("VS", (3, 3)), ("PA", ("a", "b")), ("PA", ("a", "z", "0")), ("PA", ("b",)), ("SV", ("ab", "z", ""))]
        d = 1 if tier == "quick" else 2
        cap = 60 if tier == "quick" else 300
        ts = _trees(d, leaves)
        step = max(1, len(ts) // cap)
        STR_TREES[tier] = ts[::step][:cap]
    return STR_TREES[tier]


def _accepts(c, v):
    try:
        c(v)
    except error.PyAsn1Error:
        return True and False
    return True


def denot_int(tier, ti, v, via_type):
    ts = _int_trees("quick" if tier == 0 else "thorough")
    if ti >= len(ts):
        raise Skip()
    tr = ts[ti]
    c = mk_constraint(tr)
    if via_type:
        T = univ.Integer().subtype(subtypeSpec=c)
        try:
            got_obj = T.clone(v)
            got = True
            if int(got_obj) != v:
                return "value changed by construction"
        except error.PyAsn1Error:
            got = False
    else:
        got = _accepts(c, v)
    want = den(tr, v)
    if got != want:
        return "constraint %s %s %s, set theory says otherwise" % (tr, "accepts" if got else "rejects", v)
    return None


ALPHA = "abz0"


def denot_str(tier, ti, n, c0, c1, c2, via_type):
    ts = _str_trees("quick" if tier == 0 else "thorough")
    if ti >= len(ts):
        raise Skip()
    tr = ts[ti]
    s = (ALPHA[c0] + ALPHA[c1] + ALPHA[c2])[:n]
    c = mk_constraint(tr)
    if via_type:
        T = char.IA5String().subtype(subtypeSpec=c)
        try:
            T.clone(s)
            got = True
        except error.PyAsn1Error:
            got = False
    else:
        got = _accepts(c, s)
    want = den(tr, s)
    if got != want:
        return "constraint %s %s %r, set theory says otherwise" % (tr, "accepts" if got else "rejects", s)
    return None


# ---------------------------------------------------------------- component presence


def presence(ha, hb, hc, which):
    S = univ.Sequence(componentType=namedtype.NamedTypes(
        namedtype.OptionalNamedType("a", univ.Integer()), namedtype.OptionalNamedType("b", univ.OctetString()), namedtype.OptionalNamedType("c", univ.Boolean())))
    cons = [
        (constraint.WithComponentsConstraint(("a", constraint.ComponentPresentConstraint())), lambda a, b, c: a),
        (constraint.WithComponentsConstraint(("a", constraint.ComponentAbsentConstraint())), lambda a, b, c: not a),
        (constraint.WithComponentsConstraint(("a", constraint.ComponentPresentConstraint()), ("b", constraint.ComponentAbsentConstraint())), lambda a, b, c: a and not b),
        (constraint.ConstraintsUnion(constraint.WithComponentsConstraint(("a", constraint.ComponentPresentConstraint()), ("b", constraint.ComponentAbsentConstraint())),
                                     constraint.WithComponentsConstraint(("a", constraint.ComponentAbsentConstraint()), ("b", constraint.ComponentPresentConstraint()))),
         lambda a, b, c: (a and not b) or (b and not a)),
        (constraint.ConstraintsExclusion(constraint.WithComponentsConstraint(("c", constraint.ComponentPresentConstraint()))), lambda a, b, c: not c),
    ]
    con, model = cons[which]
    T = S.subtype(subtypeSpec=con)
    v = T.clone()
    v.clear()
    if ha:
        v["a"] = 1
    if hb:
        v["b"] = b"x"
    if hc:
        v["c"] = True
    want = bool(model(ha, hb, hc))
    # constructed types: constraints are verified at serialisation ("encoders refuse constructed values that violate theirs")
    try:
        der_encoder.encode(v)
        got = True
    except error.PyAsn1Error:
        got = False
    if got != want:
        return "encoder %s a value whose component presence %s the constraint" % ("accepted" if got else "refused", "violates" if not want else "satisfies")
    return None


# ---------------------------------------------------------------- no bypass

LO, HI = 2, 9


def _int_ok(v):
    return LO <= v and v <= HI


def nobypass_int(a, b, op):
    T = univ.Integer().subtype(subtypeSpec=constraint.ValueRangeConstraint(LO, HI))
    x = T.clone(a)
    try:
        if op == 0:
            r = x + b
        elif op == 1:
            r = x - b
        elif op == 2:
            r = x * b
        elif op == 3:
            if b == 0:
                raise Skip()
            r = x // b
        elif op == 4:
            if b == 0:
                raise Skip()
            r = x % b
        elif op == 5:
            if b < 0 or b > 6:
                raise Skip()
            r = x << b
        elif op == 6:
            if b < 0 or b > 6:
                raise Skip()
            r = x >> b
        elif op == 7:
            r = x & b
        elif op == 8:
            r = x | b
        elif op == 9:
            r = x ^ b
        elif op == 10:
            r = -x
        elif op == 11:
            r = abs(x)
        elif op == 12:
            r = ~x
        elif op == 13:
            r = b + x
        elif op == 14:
            r = b - x
        elif op == 15:
            r = x.clone(b)
        elif op == 16:
            r = x.subtype(b)
        elif op == 17:
            r = T.clone(x + 0).clone(value=b)
        elif op == 18:
            if b < 0 or b > 3:
                raise Skip()
            r = x ** b
        else:
            r = b * x
    except error.PyAsn1Error:
        return None
    if isinstance(r, univ.Integer):
        if r.subtypeSpec is not None and r.subtypeSpec == T.subtypeSpec or True:
            if not _int_ok(int(r)):
                return "operation %d produced the Integer %s which its range constraint (%d..%d) rejects" % (op, int(r), LO, HI)
    return None


def nobypass_octets(n, o0, o1, m, p0, op, i, j):
    T = univ.OctetString().subtype(subtypeSpec=constraint.ValueSizeConstraint(1, 2))
    x = T.clone(bytes([o0, o1][:n]))
    other = bytes([p0, p0][:m])
    try:
        if op == 0:
            r = x + other
        elif op == 1:
            r = other + x
        elif op == 2:
            r = x * m
        elif op == 3:
            r = x[i:j]
        elif op == 4:
            r = x.clone(other)
        elif op == 5:
            r = x.subtype(other)
        else:
            r = m * x
    except error.PyAsn1Error:
        return None
    if isinstance(r, univ.OctetString):
        if not (1 <= len(r) and len(r) <= 2):
            return "operation %d produced an OCTET STRING of %d octets under SIZE (1..2)" % (op, len(r))
    return None


def nobypass_bits(nb, m, op, i, j):
    T = univ.BitString().subtype(subtypeSpec=constraint.ValueSizeConstraint(1, 3))
    x = T.clone("101"[:nb])
    other = "11"[:m]
    try:
        if op == 0:
            r = x + other
        elif op == 1:
            r = other + x
        elif op == 2:
            r = x * m
        elif op == 3:
            r = x << m
        elif op == 4:
            r = x >> m
        elif op == 5:
            r = x[i:j]
        elif op == 6:
            r = x.clone(other)
        else:
            r = m * x
    except error.PyAsn1Error:
        return None
    if isinstance(r, univ.BitString):
        if not (1 <= len(r) and len(r) <= 3):
            return "operation %d produced a BIT STRING of %d bits under SIZE (1..3)" % (op, len(r))
    return None


def bits_history(n1, n2, v, how):
    """A size-constrained BIT STRING type is asked about a value of n1 bits, then about a numerically equal value of n2 bits
    (leading zeros): each answer is the set-theoretic one, whatever was asked before."""
    T = univ.BitString().subtype(subtypeSpec=constraint.ValueSizeConstraint(2, 4))
    if v >= 2 ** n1 or v >= 2 ** n2:
        raise Skip()

    def payload(n):
        return univ.SizedInteger(v).setBitLength(n) if n else ""

    def accepted(fn):
        try:
            r = fn()
        except error.PyAsn1Error:
            return False
        return r

    a = accepted(lambda: T.clone(payload(n1)))
    if (a is not False) != (2 <= n1 <= 4):
        return "first value of %d bits: wrong answer" % n1
    if how == 0:
        r = accepted(lambda: T.clone(payload(n2)))
    elif how == 1:
        enc = der_encoder.encode(univ.BitString(payload(n2)))
        r = accepted(lambda: ber_decoder.decode(substrate(enc), asn1Spec=T)[0])
    elif how == 2:
        if a is False:
            raise Skip()
        r = accepted(lambda: a.clone(payload(n2)))
    else:
        r = accepted(lambda: T.subtype(value=payload(n2)))
    if (r is not False) != (2 <= n2 <= 4):
        return "a %d-bit value %s under SIZE (2..4) after a %d-bit value with the same number was %s" % (
            n2, "accepted" if r is not False else "rejected", n1, "accepted" if a is not False else "rejected")
    if r is not False and len(r) != n2:
        return "value has %d bits instead of %d" % (len(r), n2)
    return None


def empty_operand(v, shape):
    """An empty intersection (the subtypeSpec of an unconstrained type) as an OPERAND denotes the whole value space:
    in a union it swallows the other alternatives, under an exclusion it excludes everything, in an intersection it is neutral."""
    everything = constraint.ConstraintsIntersection()
    sv = constraint.SingleValueConstraint(1, 2)
    vr = constraint.ValueRangeConstraint(0, 10)
    if shape == 0:
        c, want = constraint.ConstraintsUnion(everything, sv), True
    elif shape == 1:
        c, want = constraint.ConstraintsUnion(sv, univ.Integer().subtypeSpec), True
    elif shape == 2:
        c, want = constraint.ConstraintsIntersection(everything, vr), 0 <= v <= 10
    elif shape == 3:
        c, want = constraint.ConstraintsIntersection(vr, constraint.ConstraintsExclusion(constraint.ConstraintsUnion(everything, sv))), False
    elif shape == 4:
        c, want = constraint.ConstraintsIntersection(vr, constraint.ConstraintsUnion(constraint.ConstraintsIntersection(everything), sv)), 0 <= v <= 10
    else:
        c, want = constraint.ConstraintsUnion(constraint.ConstraintsIntersection(everything, sv), constraint.ValueRangeConstraint(5, 6)), v in (1, 2, 5, 6)
    T = univ.Integer().subtype(subtypeSpec=c)
    try:
        T.clone(v)
        got = True
    except error.PyAsn1Error:
        got = False
    if got != want:
        return "constraint shape %d %s %d; its denotation %s it" % (shape, "admits" if got else "rejects", v, "contains" if want else "does not contain")
    return None


def no_upcast(v, history, style):
    """However many types have been derived from INTEGER before (history), a member declared INTEGER (1 | 2) does not take a plain INTEGER
    whose value is outside {1, 2}; and the plain INTEGER type does not become a subtype of the constrained one."""
    c = constraint.SingleValueConstraint(1, 2)
    if history >= 1:
        univ.Integer().subtype(subtypeSpec=constraint.SingleValueConstraint(1, 2))
    if history >= 2:
        univ.Integer().subtype(subtypeSpec=constraint.ValueRangeConstraint(0, 5)).subtype(subtypeSpec=constraint.SingleValueConstraint(1, 2))
    if style == 0:
        F = univ.Integer().subtype(subtypeSpec=c)
    elif style == 1:
        F = univ.Integer(subtypeSpec=c)
    else:
        F = univ.Integer(subtypeSpec=constraint.ConstraintsIntersection(constraint.SingleValueConstraint(1, 2)))
    if F.isSuperTypeOf(univ.Integer(v)) and v not in (1, 2):
        return "INTEGER (1 | 2) recognises the unconstrained INTEGER %d as a value of a subtype" % v
    S = univ.Sequence(componentType=namedtype.NamedTypes(namedtype.NamedType("f", F))).clone()
    try:
        S.setComponentByName("f", univ.Integer(v))
    except error.PyAsn1Error:
        return None
    if v not in (1, 2):
        return "a member declared INTEGER (1 | 2) accepted the plain INTEGER %d" % v
    return None


def nobypass_decode(v):
    T = univ.Integer().subtype(subtypeSpec=constraint.ValueRangeConstraint(LO, HI))
    enc = der_encoder.encode(univ.Integer(v))
    try:
        w, rest = ber_decoder.decode(substrate(enc), asn1Spec=T)
    except error.PyAsn1Error:
        return None
    if not _int_ok(int(w)):
        return "decoder produced Integer %s under (%d..%d)" % (int(w), LO, HI)
    return None


# ---------------------------------------------------------------- derivation chains


def derivation(v, tagged, lo1, hi1):
    if lo1 > hi1:
        raise Skip()
    c0 = constraint.ValueRangeConstraint(0, 20)
    c1 = constraint.ValueRangeConstraint(lo1, hi1)
    c2 = constraint.SingleValueConstraint(3, 4, 7, 25)
    T0 = univ.Integer().subtype(subtypeSpec=c0)
    T1 = T0.subtype(subtypeSpec=c1)
    if tagged:
        T1 = T1.subtype(implicitTag=tag.Tag(tag.tagClassContext, tag.tagFormatSimple, 1))
    T2 = T1.subtype(subtypeSpec=c2)
    chain = [univ.Integer(), T0, T1, T2]
    acc = []
    for T in chain:
        try:
            T.clone(v)
            acc.append(True)
        except error.PyAsn1Error:
            acc.append(False)
    for i in range(1, len(chain)):
        if acc[i] and not acc[i - 1]:
            return "derived type %d admits %s but its parent does not" % (i, v)
    for i in range(len(chain)):
        for j in range(i, len(chain)):
            # (matchTags=False makes base.isSuperTypeOf return True without looking at the constraints at all: only the
            #  tagged chain, whose tags legitimately differ, uses it; there the constraints are compared directly)
            ok = (chain[i].subtypeSpec.isSuperTypeOf(chain[j].subtypeSpec) if tagged else chain[i].isSuperTypeOf(chain[j]))
            if not ok:
                return "type %d does not recognise its descendant %d as a subtype" % (i, j)
    if acc[3]:
        val = T2.clone(v)
        if not tagged:
            S = univ.Sequence(componentType=namedtype.NamedTypes(namedtype.NamedType("m", T0)))
            s = S.clone()
            try:
                s["m"] = val
            except error.PyAsn1Error:
                return "value of the derived type cannot be assigned where the parent type is expected (SEQUENCE member)"
            L = univ.SequenceOf(componentType=T0).clone()
            try:
                L.append(val)
            except error.PyAsn1Error:
                return "value of the derived type cannot be appended to SEQUENCE OF parent"
            if int(s["m"]) != v or int(L[0]) != v:
                return "value changed on assignment"
    return None


def contained_literal(v):
    c = constraint.ContainedSubtypeConstraint(constraint.SingleValueConstraint(1, 2, 3, 6), 9, 18)
    try:
        c(v)
        got = True
    except error.PyAsn1Error:
        got = False
    want = v in (1, 2, 3, 6, 9, 18)
    if got != want:
        return "ContainedSubtypeConstraint(SingleValue(1,2,3,6), 9, 18) %s %s" % ("accepts" if got else "rejects", v)
    return None


def size_on_seqof(k):
    T = univ.SequenceOf(componentType=univ.Integer()).subtype(subtypeSpec=constraint.ValueSizeConstraint(1, 2))
    v = T.clone()
    v.clear()
    for i in range(k):
        v.append(i)
    try:
        der_encoder.encode(v)
        got = True
    except error.PyAsn1Error:
        got = False
    if got != (1 <= k <= 2):
        return "encoder %s a SEQUENCE OF with %d elements under SIZE (1..2)" % ("accepted" if got else "refused", k)
    return None


NQ, NT = len(_int_trees("quick")), len(_int_trees("thorough"))
SQ, ST = len(_str_trees("quick")), len(_str_trees("thorough"))
from vfw.obl import split_range

OBLIGATIONS = [
    Obl("empty_operand", empty_operand, {"v": I(-2, 12), "shape": I(0, 5)}, budget=60,
        doc="an empty intersection as operand of union / intersection / exclusion denotes the whole value space"),
    Obl("no_upcast", no_upcast, {"v": I(0, 60), "history": I(0, 2), "style": I(0, 2)}, budget=60,
        doc="after 0..2 unrelated derivations from INTEGER, a member declared INTEGER (1 | 2) refuses a plain INTEGER outside {1, 2}"),
    Obl("bits_history", bits_history, {"n1": I(0, 6), "n2": I(0, 6), "v": I(0, 3), "how": I(0, 3)}, shards=[{"how": C(h)} for h in range(4)], budget=120,
        doc="two numerically equal BIT STRING values of different lengths put to one size-constrained type in a row (construction, decoding, clone, subtype)"),
    Obl("denot_int", denot_int, {"tier": C(0), "ti": I(0, NQ - 1), "v": I(-30, 130), "via_type": B}, shards=split_range("ti", 0, NQ - 1, 16), budget=120, tiers=("quick",),
        doc="integer constraint trees up to depth 2: acceptance == set-theoretic denotation for every candidate in range"),
    Obl("denot_int_deep", denot_int, {"tier": C(1), "ti": I(0, NT - 1), "v": I(-30, 130), "via_type": B}, shards=split_range("ti", 0, NT - 1, 32), thorough_budget=400,
        tiers=("thorough",), doc="integer constraint trees up to depth 3"),
    Obl("denot_str", denot_str, {"tier": C(0), "ti": I(0, SQ - 1), "n": I(0, 3), "c0": I(0, 3), "c1": I(0, 3), "c2": I(0, 3), "via_type": B},
        shards=split_range("ti", 0, SQ - 1, 16), budget=120, tiers=("quick",), doc="size/alphabet trees on strings of length <= 3 over 4 letters"),
    Obl("denot_str_deep", denot_str, {"tier": C(1), "ti": I(0, ST - 1), "n": I(0, 3), "c0": I(0, 3), "c1": I(0, 3), "c2": I(0, 3), "via_type": B},
        shards=split_range("ti", 0, ST - 1, 32), thorough_budget=400, tiers=("thorough",)),
    Obl("presence", presence, {"ha": B, "hb": B, "hc": B, "which": I(0, 4)}, budget=60, doc="component presence/absence constraints vs truth table, enforced by the encoder"),
    Obl("nobypass_int", nobypass_int, {"a": I(LO, HI), "b": I(-20, 20), "op": I(0, 19)}, shards=split_range("op", 0, 19, 10), budget=120,
        doc="20 value-producing operations of a range-constrained Integer: result satisfies the range or the library error is raised"),
    Obl("nobypass_octets", nobypass_octets, {"n": I(1, 2), "o0": I(65, 66), "o1": I(65, 66), "m": I(0, 2), "p0": I(65, 66), "op": I(0, 6), "i": I(-3, 3), "j": I(-3, 3)},
        shards=split_range("op", 0, 6, 7), budget=120),
    Obl("nobypass_bits", nobypass_bits, {"nb": I(1, 3), "m": I(0, 2), "op": I(0, 7), "i": I(-3, 3), "j": I(-3, 3)}, shards=split_range("op", 0, 7, 8), budget=120),
    Obl("nobypass_decode", nobypass_decode, {"v": I(-300, 300)}, budget=60),
    Obl("derivation", derivation, {"v": I(-5, 30), "tagged": B, "lo1": I(0, 8), "hi1": I(4, 20)}, budget=120,
        doc="chains T0 -> subtype -> subtype: values shrink, parents recognise descendants, descendant values assignable where the parent is expected"),
    Obl("contained_literal", contained_literal, {"v": I(-2, 20)}, budget=30),
    Obl("size_on_seqof", size_on_seqof, {"k": I(0, 4)}, budget=30, doc="encoders refuse constructed values violating their size constraint"),
]
