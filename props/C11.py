"""C11 - decoding result does not depend on the kind of input object."""
import io as real_io
import os

from pyasn1 import error
from pyasn1.codec import streaming
from pyasn1.codec.ber import decoder as ber_decoder
from pyasn1.codec.ber import encoder as ber_encoder
from pyasn1.type import univ

from props.common import *
from vfw import streams as vs
from vfw.schema import T

BUF = 8
BOUNDS = ("seek-back wrapper: the real CachingStreamWrapper over a non-seekable raw double holding 24 octets, io.DEFAULT_BUFFER_SIZE scaled to %d so that the cache-drop branch is "
          "reachable, histories of N = 3 (quick) / 4 (thorough) symbolic operations from {read(n), peek(n), set mark at current position, seek back to mark + d, tell}, arguments "
          "0..6, compared with a reference cursor over the same bytes (positions compared relative to the last mark); the same over a non-blocking raw stream of 10 octets (symbolic arrival, arguments -1/0/1/2/4/11: everything / beyond the end); decode across kinds: SEQUENCE OF OCTET STRING with 0..3 "
          "elements of 0..6 octets (definite and indefinite), nested SEQUENCE, plain OCTET STRING of 0..20 octets, straddling multiples of the scaled buffer size, through bytes, "
          "io.BytesIO, OCTET STRING value, ANY value, seekable double, non-seekable double behind the wrapper, seekable double whose peek() hands out fewer octets than asked (as buffered file readers may): same value, remainder (2 trailing octets) and error class" % BUF)
OUTSIDE = "real files, gzip and zipfile readers (OS/zlib I/O is C code; their dispatch in asSeekableStream - seekable or wrapped - is what the doubles exercise); the real 8192-octet buffer size"
ASSUMPTIONS = ["io.DEFAULT_BUFFER_SIZE as seen by pyasn1.codec.streaming is replaced by %d during the harness, in symbolic exploration and in concrete replay alike (it is an environment constant)" % BUF]


class _IoShim(object):
    DEFAULT_BUFFER_SIZE = BUF

    def __getattr__(self, name):
        return getattr(real_io, name)


class _Raw(object):
    """Non-seekable blocking raw stream over concrete data."""

    def __init__(self, data):
        self._d, self._p = data, 0

    def seekable(self):
        return False

    def read(self, n=-1):
        if n is None or n < 0:
            n = len(self._d) - self._p
        r = self._d[self._p:self._p + n]
        self._p += len(r)
        return r


def _with_small_buffer(fn):
    saved = streaming.io
    streaming.io = _IoShim()
    try:
        return fn()
    finally:
        streaming.io = saved


DATA = bytes(range(65, 89))


def wrapper_history(n_steps, ops):
    def run():
        try:
            w = streaming.CachingStreamWrapper(_Raw(DATA))
        except AttributeError:
            raise Skip()
        c = 0  # reference cursor (absolute)
        m = 0  # reference mark (absolute)
        wm = w.tell()  # wrapper position at the last mark
        for step, (op, a) in enumerate(ops[:n_steps]):
            if op == 0:
                got = w.read(a)
                want = DATA[c:c + a]
                c += len(want)
                if got != want:
                    return "step %d: read(%d) returned %r, a seekable stream returns %r" % (step, a, got, want)
            elif op == 1:
                got = w.peek(a)
                want = DATA[c:c + a]
                if got != want:
                    return "step %d: peek(%d) returned %r instead of %r" % (step, a, got, want)
            elif op == 2:
                w.markedPosition = w.tell()
                m = c
                wm = w.tell()
                if w.markedPosition != wm:
                    return "step %d: markedPosition %s is not the current position %s" % (step, w.markedPosition, wm)
            elif op == 3:
                d = a
                if m + d > c:
                    raise Skip()  # only backward seeks to >= mark are permitted
                w.seek(w.markedPosition + d)
                c = m + d
            else:
                pass
            if w.tell() - wm != c - m:
                return "step %d: position relative to the mark is %d, reference %d" % (step, w.tell() - wm, c - m)
        rest = w.read()
        if rest != DATA[c:]:
            return "final read() returned %r instead of %r" % (rest, DATA[c:])
        return None

    return _with_small_buffer(run)


class _RawNB(object):
    """Non-seekable, non-blocking raw stream: `avail` octets have arrived; read() -> None while nothing new is there and the writer has not closed."""

    def __init__(self, data, avail):
        self._d, self._p, self.avail = data, 0, avail

    def seekable(self):
        return False

    def more(self):
        self.avail = len(self._d)  # the rest arrives and the writer closes

    def read(self, n=-1):
        end = self.avail if (n is None or n < 0) else min(self._p + n, self.avail)
        if self._p < end:
            r = self._d[self._p:end]
            self._p = end
            return r
        if n == 0:
            return b""
        return b"" if self.avail >= len(self._d) else None


DATA10 = bytes(range(97, 107))


NB_ARGS = (-1, 0, 1, 2, 4, 11)
NB_AVAIL = (0, 3, 10)


def wrapper_nb2(av, when, op0, i0, op1, i1):
    return wrapper_nb(NB_AVAIL[av], when, op0, NB_ARGS[i0], op1, NB_ARGS[i1], 4, 0)


def wrapper_nb3(av, when, op0, i0, op1, i1, op2, i2):
    return wrapper_nb(NB_AVAIL[av], when, op0, NB_ARGS[i0], op1, NB_ARGS[i1], op2, NB_ARGS[i2])


def wrapper_nb(avail, when, op0, a0, op1, a1, op2, a2):
    """The wrapper over a non-blocking raw stream of 10 octets of which `avail` have arrived; the rest arrives before step `when`.
    Arguments -1 (= everything available) .. 12 (beyond the end).  Reference: a cursor over the arrived prefix."""
    ops = [(op0, a0), (op1, a1), (op2, a2)]

    def run():
        raw = _RawNB(DATA10, avail)
        try:
            w = streaming.CachingStreamWrapper(raw)
        except AttributeError:
            raise Skip()
        c, m, wm = 0, 0, w.tell()
        for step, (op, a) in enumerate(ops):
            if step == when:
                raw.more()
            if op in (0, 1):
                end = raw.avail if a < 0 else min(c + a, raw.avail)
                want = DATA10[c:end] if c < end else (b"" if (a == 0 or raw.avail >= len(DATA10)) else None)
                got = w.read(a) if op == 0 else w.peek(a)
                if got != want:
                    return "step %d: %s(%d) returned %r, a stream over the arrived octets returns %r" % (step, ("read", "peek")[op], a, got, want)
                if op == 0 and want:
                    c += len(want)
            elif op == 2:
                w.markedPosition = w.tell()
                m, wm = c, w.tell()
            elif op == 3:
                if a < 0 or m + a > c:
                    raise Skip()
                w.seek(w.markedPosition + a)
                c = m + a
            if w.tell() - wm != c - m:
                return "step %d: position relative to the mark is %d, reference %d" % (step, w.tell() - wm, c - m)
        raw.more()
        rest = w.read()
        if rest != DATA10[c:]:
            return "final read() returned %r instead of %r" % (rest, DATA10[c:])
        return None

    return _with_small_buffer(run)


def wrapper3(op0, a0, op1, a1, op2, a2):
    return wrapper_history(3, [(op0, a0), (op1, a1), (op2, a2)])


def wrapper4(op0, a0, op1, a1, op2, a2, op3, a3):
    return wrapper_history(4, [(op0, a0), (op1, a1), (op2, a2), (op3, a3)])


def wrapper_long(r0, r1, r2, b0, b1):
    """mark after r0 octets, read r1, mark again (cache dropped when beyond the buffer), read r2, seek back b0, read b1"""
    return wrapper_history(7, [(0, r0), (2, 0), (0, r1), (2, 0), (0, r2), (3, b0), (0, b1)])


SOF = T("SEQOF", elem=T("OCTS"))
NEST = T("SEQ", comps=[("l", SOF, "req", None), ("i", T("INT"), "req", None)])
OCT = T("OCTS")


class _Peeky(object):
    """Seekable stream that also offers peek(), like io.BufferedReader / gzip readers: peek(n) may hand out fewer octets than asked for
    (here: at most one), which the io documentation explicitly allows."""

    def __init__(self, data):
        self._d, self._p = data, 0

    def seekable(self):
        return True

    def readable(self):
        return True

    def tell(self):
        return self._p

    def seek(self, n, whence=0):
        if whence == 0:
            self._p = n
        elif whence == 1:
            self._p += n
        else:
            self._p = len(self._d) + n
        return self._p

    def read(self, n=-1):
        if n is None or n < 0:
            n = len(self._d) - self._p
        r = self._d[self._p:self._p + n]
        self._p += len(r)
        return r

    def peek(self, n=0):
        return self._d[self._p:self._p + 1]


def _decode_kind(kind, data, spec):
    if kind == 0:
        sub = bytes(data)
    elif kind == 1:
        sub = real_io.BytesIO(bytes(data))
    elif kind == 2:
        sub = univ.OctetString(bytes(data))
    elif kind == 3:
        sub = univ.Any(bytes(data))
    elif kind == 4:
        sub = vs.ArrivalStream(bytes(data), [len(data)], eof_with_last=True, seekable=True)
    elif kind == 6:
        sub = _Peeky(bytes(data))
    else:
        sub = _Raw(bytes(data))
    try:
        w, rest = ber_decoder.decode(sub, asn1Spec=spec)
    except error.PyAsn1Error as e:
        return ("error", type(e).__name__)
    return ("ok", w, bytes(rest))


def across_kinds(shape, k, l0, l1, l2, defMode, cut, kind):
    """The same octets through each substrate kind; kind 0 (bytes) is the yardstick."""
    lens = [l0, l1, l2][:k]
    items = [bytes([65 + i] * n) for i, n in enumerate(lens)]
    if shape == 0:
        t, av = SOF, items
    elif shape == 1:
        t, av = NEST, {"l": items, "i": 5}
    else:
        t, av = OCT, b"".join(items)
    enc = ber_encoder.encode(build(t, av), defMode=defMode) + b"\x05\x00"
    if cut:
        enc = enc[:len(enc) - 2 - cut]  # invalid (truncated) input: same error class expected
    spec = mk_type(t)

    def run():
        ref = _decode_kind(0, enc, spec)
        got = _decode_kind(kind, enc, spec)
        if ref[0] != got[0]:
            return "substrate kind %d: %s, bytes: %s" % (kind, got[0] + (":" + got[1] if got[0] == "error" else ""), ref[0] + (":" + ref[1] if ref[0] == "error" else ""))
        if ref[0] == "error":
            if ref[1] != got[1] and not (issubclass(getattr(error, ref[1]), error.SubstrateUnderrunError) and issubclass(getattr(error, got[1]), error.SubstrateUnderrunError)):
                return "substrate kind %d raises %s, bytes raise %s" % (kind, got[1], ref[1])
            return None
        if not same(t, absval(t, got[1]), av) or not same(t, absval(t, ref[1]), av):
            return "substrate kind %d decodes to a different value" % kind
        if got[2] != ref[2]:
            return "substrate kind %d leaves remainder %r, bytes leave %r" % (kind, got[2], ref[2])
        return None

    return _with_small_buffer(run)


OPS = {"op": I(0, 4), "a": I(0, 6)}
OBLIGATIONS = [
    Obl("wrapper3", wrapper3, {"op0": I(0, 4), "a0": I(0, 6), "op1": I(0, 4), "a1": I(0, 6), "op2": I(0, 4), "a2": I(0, 6)},
        shards=[{"op0": C(o)} for o in range(5)], budget=120, doc="CachingStreamWrapper vs seekable reference, every 3-operation history"),
    Obl("wrapper4", wrapper4, {"op0": I(0, 4), "a0": I(0, 6), "op1": I(0, 4), "a1": I(0, 6), "op2": I(0, 4), "a2": I(0, 6), "op3": I(0, 4), "a3": I(0, 6)},
        shards=[{"op0": C(o), "op1": C(p)} for o in range(5) for p in range(5)], thorough_budget=300, tiers=("thorough",)),
    Obl("wrapper_nb2", wrapper_nb2, {"av": I(0, 2), "when": I(0, 2), "op0": I(0, 3), "i0": I(0, 5), "op1": I(0, 3), "i1": I(0, 5)},
        shards=[{"op0": C(o), "when": C(wh)} for o in range(4) for wh in range(3)], budget=150,
        doc="CachingStreamWrapper over a non-blocking raw stream (None = no data yet): reads/peeks of everything (-1), 0, 1, 2, 4, 11 (beyond the end) octets, marks, "
            "backward seeks, across the arrival of the rest; 2-operation histories + final read; 0/3/10 of 10 octets arrived at the start"),
    Obl("wrapper_nb3", wrapper_nb3, {"av": I(0, 2), "when": I(0, 3), "op0": I(0, 3), "i0": I(0, 5), "op1": I(0, 3), "i1": I(0, 5), "op2": I(0, 3), "i2": I(0, 5)},
        shards=[{"op0": C(o), "when": C(wh), "op1": C(p)} for o in range(4) for wh in range(4) for p in range(4)], thorough_budget=400, tiers=("thorough",),
        doc="the same with 3-operation histories"),
    Obl("wrapper_long", wrapper_long, {"r0": I(0, 3), "r1": I(5, 10), "r2": I(0, 4), "b0": I(0, 4), "b1": I(0, 6)},
        shards=[{"r0": C(a)} for a in range(4)], budget=120,
        doc="two marks with reads straddling the (scaled) buffer size, then a backward seek and a read"),
    Obl("across_kinds", across_kinds, {"shape": I(0, 2), "k": I(0, 3), "l0": I(0, 6), "l1": I(0, 6), "l2": I(0, 6), "defMode": B, "cut": I(0, 2), "kind": I(1, 6)},
        shards=[{"shape": C(s), "kind": C(kd)} for s in range(3) for kd in range(1, 7)], budget=120,
        doc="same octets as bytes vs BytesIO / OCTET STRING / ANY / seekable double / non-seekable double"),
]
