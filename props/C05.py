"""C05 - streaming decoder output is independent of the data arrival schedule."""
import io

from pyasn1 import error
from pyasn1.codec.ber import decoder as ber_decoder

from props.common import *
from props.streams_cat import BY_ID, QUICK, STREAMS
from vfw import streams as vs
from vfw.schema import absval as _absval

BOUNDS = ("sched_cat: catalogue entries with symbolic value slots (narrowed to two size classes) encoded by BER (definite/indefinite), CER, DER, once or twice back to back, one symbolic cut (two in the thorough tier), on the seekable non-blocking double (behind the caching wrapper the cache is a real io.BytesIO, which would enumerate the symbolic contents: that kind is covered by the concrete streams); "
          "streams: props/streams_cat.py (8 quick / 10 thorough concrete concatenations, BER definite/indefinite/chunked, CER, DER, guided and "
          "schemaless); arrival schedule: k symbolic non-decreasing cut points in [0, |s|] (k = 1 quick: every 2-chunk partition and every empty "
          "poll; k = 2 thorough, k = 3 for streams <= 20 octets), end-of-stream signalled with or after the last octet (symbolic); three stream "
          "kinds: io.BytesIO subclass, seekable non-BytesIO double, non-seekable double behind the real CachingStreamWrapper")
OUTSIDE = "more than k+1 chunks; streams outside the catalogue; real OS files/sockets"
ASSUMPTIONS = ["kind 3: io.DEFAULT_BUFFER_SIZE as seen by pyasn1.codec.streaming is replaced by 8 during the harness (environment constant), in symbolic exploration and replay alike",
               "stream doubles implement Python's non-blocking io contract: read() -> None when no data yet, short reads, b'' only after close"]


class _BytesIOArrival(io.BytesIO):
    def __init__(self, data, cuts, eof_with_last):
        io.BytesIO.__init__(self, data)
        self.sched = vs.ArrivalStream(data, cuts, eof_with_last)

    def read(self, size=-1):
        pos = self.tell()
        avail = self.sched.available
        if pos >= avail:
            if self.sched.closed_by_writer:
                return b""
            return None
        if size is None or size < 0 or pos + size > avail:
            size = avail - pos
        return io.BytesIO.read(self, size)


def _mk_stream(kind, data, cuts, eof_with_last):
    if kind == 0:
        s = _BytesIOArrival(data, cuts, eof_with_last)
        return s, s.sched
    s = vs.ArrivalStream(data, cuts, eof_with_last, seekable=(kind == 1))
    return s, s


class _IoShim(object):
    DEFAULT_BUFFER_SIZE = 8

    def __getattr__(self, name):
        return getattr(io, name)


def run_schedule(sid, kind, eof_with_last, cuts):
    if kind != 3:
        return _run_schedule(sid, kind, eof_with_last, cuts)
    # kind 3: non-seekable stream behind the real CachingStreamWrapper whose cache-drop threshold (io.DEFAULT_BUFFER_SIZE as seen
    # by pyasn1.codec.streaming) is scaled to 8 octets, so that cache drops happen inside and between the items of these short streams
    from pyasn1.codec import streaming

    saved = streaming.io
    streaming.io = _IoShim()
    try:
        return _run_schedule(sid, 2, eof_with_last, cuts)
    finally:
        streaming.io = saved


def _run_schedule(sid, kind, eof_with_last, cuts):
    st = BY_ID[sid]
    data = st.data
    total = len(data)
    prev = 0
    for c in cuts:
        if c < prev or c > total:
            raise Skip()
        prev = c
    stream, sched = _mk_stream(kind, data, list(cuts), eof_with_last)
    it = iter(ber_decoder.StreamingDecoder(stream, asn1Spec=st.spec))
    objs = []
    underruns = 0
    while True:
        try:
            o = next(it)
        except StopIteration:
            break
        if o is None:
            return "the decoder yielded None"
        if isinstance(o, error.SubstrateUnderrunError):
            underruns += 1
            missing = sched.available < total or not sched.closed_by_writer
            if not missing:
                return "underrun reported although all octets arrived and the stream is closed"
            if underruns > len(cuts) + 4:
                return "no progress: more underruns than arrival events"
            sched.advance()
            continue
        objs.append(o)
        if len(objs) > len(st.items):
            return "more objects than encodings"
    if len(objs) != len(st.items):
        return "yielded %d objects for %d encodings" % (len(objs), len(st.items))
    for o, (g, t, av, enc_i) in zip(objs, st.items):
        if not same(t, _absval(t, o), av):
            return "object differs from the one-shot decode"
        # the same item decoded in isolation (fresh decoder, complete bytes): identical object incl. its tags
        alone, _rest = ber_decoder.decode(enc_i, asn1Spec=st.spec)
        if _der(o) != _der(alone):
            return "object differs from the same item decoded in isolation (tags or content)"
    return None


def _der(o):
    from pyasn1.codec.der import encoder as der_encoder

    return der_encoder.encode(o)


def sched_cat(sid, codec, defMode, twice, kind, eof_with_last, cut1, cut2, **slots):
    """Catalogue value with symbolic slots, encoded by the real encoder (codec/mode symbolic), once or twice back to back, arriving in up to three
    chunks on a seekable non-blocking double: same objects as the complete bytes give, then stop."""
    from props.C07 import _decoder, _encode

    e = by_id(sid)
    av = e.mk(**slots)
    enc1 = _encode(codec, build(e.t, av), defMode, 0)
    data = enc1 + enc1 if twice else enc1
    total = len(data)
    if cut1 > total or cut2 > total or (cut2 >= 0 and cut2 < cut1):
        raise Skip()
    stream = vs.ArrivalStream(data, [cut1] if cut2 < 0 else [cut1, cut2], eof_with_last, seekable=(kind == 1))
    it = iter(_decoder(codec).StreamingDecoder(stream, asn1Spec=mk_type(e.t)))
    want = 2 if twice else 1
    objs = []
    underruns = 0
    while True:
        try:
            o = next(it)
        except StopIteration:
            break
        if o is None:
            return "the decoder yielded None"
        if isinstance(o, error.SubstrateUnderrunError):
            underruns += 1
            if not (stream.available < total or not stream.closed_by_writer):
                return "underrun reported although all octets arrived and the stream is closed"
            if underruns > 8:
                return "no progress: more underruns than arrival events"
            stream.advance()
            continue
        objs.append(o)
        if len(objs) > want:
            return "more objects than encodings"
    if len(objs) != want:
        return "yielded %d objects for %d encodings" % (len(objs), want)
    for o in objs:
        if not same(e.t, _absval(e.t, o), av):
            return "object differs from the value that was encoded"
    return None


def sched1(sid, kind, eof_with_last, c1):
    return run_schedule(sid, kind, eof_with_last, (c1,))


def sched_dup(sid, kind, eof_with_last, c1):
    """two consecutive 'no data yet' polls at the same position"""
    return run_schedule(sid, kind, eof_with_last, (c1, c1))


def sched2(sid, kind, eof_with_last, c1, c2):
    return run_schedule(sid, kind, eof_with_last, (c1, c2))


def sched3(sid, kind, eof_with_last, c1, c2, c3):
    return run_schedule(sid, kind, eof_with_last, (c1, c2, c3))


CAT_QUICK = ("int", "octs", "bits", "seqof_int", "choice.E", "utf8.EI")
# streams without a definite-length container longer than the scaled buffer (those hit known finding F-cache-renumber of C11)
SMALLBUF_OK = ("ber_indef_chunked", "two_ints_octs", "bits_chunked", "choice_expl_indef", "nest_indef", "hi_tag")
OBLIGATIONS = []
for e in all_entries():
    if e.has("real") or e.has("corpus"):
        continue
    OBLIGATIONS.append(entry_obl("sched_cat", sched_cat, e, narrow=True, budget=300, thorough_budget=400,
                                 extra={"codec": I(0, 2), "defMode": B, "twice": B, "kind": C(1), "eof_with_last": B, "cut1": I(0, 40), "cut2": C(-1)},
                                 extra_thorough={"cut2": I(-1, 40)} if e.id in CAT_QUICK else {},  # a second cut for the small entries only
                                 extra_shards=[{"codec": C(c_), "twice": C(t_)} for c_ in range(3) for t_ in (False, True)],
                                 tiers=("quick", "thorough") if e.id in CAT_QUICK else ("thorough",),
                                 doc="catalogue value (symbolic slots) x codec x mode, once/twice, arriving in two chunks (cut symbolic), seekable and non-seekable double"))
for st in STREAMS:
    n = len(st.data)
    tiers = ("quick", "thorough") if st.id in QUICK else ("thorough",)
    for kind in range(4):
        if kind == 3 and st.id not in SMALLBUF_OK:
            continue
        OBLIGATIONS.append(Obl("sched_dup:%s:k%d" % (st.id, kind), sched_dup, {"sid": C(st.id), "kind": C(kind), "eof_with_last": B, "c1": I(0, n)},
                               budget=120, tiers=tiers, doc="two empty polls in a row at every position of stream %s, stream kind %d" % (st.id, kind)))
        OBLIGATIONS.append(Obl("sched1:%s:k%d" % (st.id, kind), sched1, {"sid": C(st.id), "kind": C(kind), "eof_with_last": B, "c1": I(0, n)},
                               budget=120, tiers=tiers, doc="every 2-chunk arrival of stream %s (%s), stream kind %d" % (st.id, st.doc, kind)))
        nsh = min(16, n + 1)
        OBLIGATIONS.append(Obl("sched2:%s:k%d" % (st.id, kind), sched2, {"sid": C(st.id), "kind": C(kind), "eof_with_last": B, "c1": I(0, n), "c2": I(0, n)},
                               shards=__import__("vfw.obl", fromlist=["split_range"]).split_range("c1", 0, n, nsh), thorough_budget=400, tiers=("thorough",),
                               doc="every 3-chunk arrival of stream %s, stream kind %d" % (st.id, kind)))
    if n <= 20:
        OBLIGATIONS.append(Obl("sched3:%s" % st.id, sched3, {"sid": C(st.id), "kind": I(0, 2), "eof_with_last": B, "c1": I(0, n), "c2": I(0, n), "c3": I(0, n)},
                               shards=__import__("vfw.obl", fromlist=["split_range"]).split_range("c1", 0, n, 16), thorough_budget=400, tiers=("thorough",)))
