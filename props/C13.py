"""C13 - tags on the wire are exactly the type's tags."""
from pyasn1 import error
from pyasn1.codec.ber import decoder as ber_decoder
from pyasn1.codec.ber import encoder as ber_encoder
from pyasn1.codec.der import encoder as der_encoder
from pyasn1.type import tag as real_tag
from pyasn1.type import univ

from props.common import *
from vfw import streams as vs
from vfw import x690ref as R
from vfw.schema import CLS, T

BOUNDS = ("identifier kernel: every class, both forms, every tag number < 2^36 (quick) / 2^63 (thorough) through the real encodeTag and the real decoder "
          "identifier loop (cut at Tag()); tag algebra: one tagging step (implicit/explicit x class x number from {0,1,30,31,127,128,16383,16384,2^32}) "
          "applied to each of 14 representative tag stacks of depth 0..4, compared with a list model; wire: identifier octets of every tagged catalogue "
          "schema equal the reference's, outermost to innermost; decoding with the type perturbed at one symbolic level (class or number) rejects; two sibling members with any pair of pool tags in one SEQUENCE/SET are told apart")
OUTSIDE = "tag numbers >= 2^36 (2^63); stacks deeper than 5"
ASSUMPTIONS = ["identifier kernel replaces the name `tag` inside pyasn1.codec.ber.decoder by a shim whose Tag() records its arguments (numbers that reach Tag() are hashed, i.e. enumerated); everything before that call is the real code"]

POOL = (0, 1, 30, 31, 127, 128, 16383, 16384, 2 ** 32)
CLSV = (real_tag.tagClassUniversal, real_tag.tagClassApplication, real_tag.tagClassContext, real_tag.tagClassPrivate)


class Captured(Exception):
    def __init__(self, c, f, n):
        self.c, self.f, self.n = c, f, n


class _TagShim(object):
    def __getattr__(self, name):
        return getattr(real_tag, name)

    def Tag(self, tagClass=None, tagFormat=None, tagId=None):
        raise Captured(tagClass, tagFormat, tagId)


def _decode_ident(octets):
    """Run the real decoder on identifier octets until it constructs the Tag; return (class, format, id)."""
    if not hasattr(ber_decoder, "tag") or not hasattr(ber_decoder, "SingleItemDecoder"):
        raise Skip()
    saved = ber_decoder.tag
    ber_decoder.tag = _TagShim()
    try:
        import io
        stream = vs.SymStream(octets) if vs.SYMBOLIC else io.BytesIO(bytes(octets))
        dec = ber_decoder.SingleItemDecoder()
        try:
            for _ in dec(stream):
                pass
        except Captured as c:
            return c.c, c.f, c.n
        return None
    finally:
        ber_decoder.tag = saved


def ident_decode(c, f, num, tail):
    octs = bytes(R.enc_ident("UACP"[c], num, f) + [tail])
    got = _decode_ident(octs)
    if got is None:
        return "decoder did not construct a tag"
    if got[0] != CLSV[c] or got[1] != (32 if f else 0) or got[2] != num:
        return "decoder read tag (%s, %s, %s)" % got
    return None


def ident_roundtrip(c, f, num):
    try:
        enc = ber_encoder.AbstractItemEncoder()
        octs = bytes(enc.encodeTag((CLSV[c], 32 if f else 0, num), False)) + b"\x00"
    except AttributeError:
        raise Skip()
    got = _decode_ident(octs)
    if got is None:
        return "decoder did not construct a tag"
    if got[0] != CLSV[c] or got[1] != (32 if f else 0) or got[2] != num:
        return "identifier octets of the encoder are read back as (%s, %s, %s)" % got
    return None


# ---------------------------------------------------------------- tag algebra (one step from representative stacks)

BASES = [
    [],  # untagged universal INTEGER
    [("I", "C", 0)], [("E", "C", 0)], [("I", "A", 31)], [("E", "P", 128)],
    [("E", "C", 1), ("I", "A", 2)], [("I", "C", 1), ("E", "A", 2)], [("E", "C", 1), ("E", "C", 2)],
    [("E", "C", 30), ("E", "A", 31), ("I", "P", 16384)], [("I", "C", 0), ("E", "C", 0), ("E", "C", 0)],
    [("E", "C", 1), ("E", "C", 2), ("E", "C", 3), ("E", "C", 4)], [("I", "P", 2 ** 32), ("E", "C", 127), ("I", "C", 128), ("E", "A", 16383)],
]


def _model(base_constructed, steps):
    """list model: [(cls, num, constructed)] innermost first"""
    stack = [("U", 16 if base_constructed else 2, base_constructed)]
    for (m, c, n) in steps:
        if m == "I":
            stack[-1] = (c, n, stack[-1][2])
        else:
            stack.append((c, n, True))
    return stack


def _real(base_constructed, steps):
    o = univ.Sequence() if base_constructed else univ.Integer()
    for (m, c, n) in steps:
        tg = real_tag.Tag(CLS[c], real_tag.tagFormatSimple, n)
        o = o.subtype(implicitTag=tg) if m == "I" else o.subtype(explicitTag=tg)
    return o


def algebra(base, constructed, explicit, c, ni):
    steps = list(BASES[base])
    cls = "UACP"[c]
    step = ("E" if explicit else "I", cls, POOL[ni])
    if c == 0 and explicit:
        # explicit tagging refuses the UNIVERSAL class
        o = _real(constructed, steps)
        try:
            o.subtype(explicitTag=real_tag.Tag(CLS["U"], real_tag.tagFormatSimple, POOL[ni]))
        except error.PyAsn1Error:
            return None
        return "explicit tagging with a UNIVERSAL class tag was not refused"
    if c == 0:
        raise Skip()
    want = _model(constructed, steps + [step])
    o = _real(constructed, steps + [step])
    ts = o.tagSet
    got = [("UACP"[CLSV.index(t.tagClass)], t.tagId, t.tagFormat == real_tag.tagFormatConstructed) for t in ts.superTags]
    if got != want:
        return "tag set after the step is %s, model says %s" % (got, want)
    if len(ts) != len(want):
        return "len(tagSet)"
    # super/sub tag set relation: the untouched prefix of the stack is a super tag set of the result iff the step was explicit
    before = _real(constructed, steps).tagSet
    if explicit and not before.isSuperTagSetOf(ts):
        return "isSuperTagSetOf false after explicit tagging"
    if not ts.isSuperTagSetOf(ts):
        return "isSuperTagSetOf not reflexive"
    # wire: identifier octets outermost -> innermost
    v = o.clone() if constructed else o.clone(5)
    if constructed:
        v.clear() if hasattr(v, "clear") else None
    try:
        enc = der_encoder.encode(v)
    except error.PyAsn1Error:
        raise Skip()
    pos = 0
    for (cl, num, cons) in reversed(want):
        idn = bytes(R.enc_ident(cl, num, cons))
        if enc[pos:pos + len(idn)] != idn:
            return "identifier octets at offset %d are not those of tag %s" % (pos, (cl, num, cons))
        pos += len(idn)
        ln, pos = R.read_len(enc, pos)
    return None


# ---------------------------------------------------------------- perturbation of the decoding type


def perturb(sid, level, what, **slots):
    e = by_id(sid)
    tags = list(e.t.tags)
    if level >= len(tags):
        raise Skip()
    if level + 1 < len(tags) and tags[level + 1][0] == "I":
        raise Skip()  # this tag is replaced by the IMPLICIT tag applied on top of it: it never reaches the wire
    m, c, n = tags[level]
    if what == 0:
        c2 = {"A": "C", "C": "P", "P": "A"}[c]
        tags[level] = (m, c2, n)
    elif what == 1:
        tags[level] = (m, c, n + 1)
    else:
        tags[level] = (m, c, 31 if n < 31 else 30)
    t2 = T(e.t.kind, tags, e.t.comps, e.t.elem, e.t.name + "'")
    av = e.mk(**slots)
    enc = der_encoder.encode(build(e.t, av))
    # the right type accepts
    w, rest = ber_decoder.decode(substrate(enc), asn1Spec=mk_type(e.t))
    if len(rest) or not same(e.t, absval(e.t, w), av):
        return "decoding with the right type fails"
    try:
        ber_decoder.decode(substrate(enc), asn1Spec=mk_type(t2))
    except error.PyAsn1Error:
        return None
    return "a type whose tag differs at level %s (%s) accepts the encoding" % (level, ("class", "number+1", "number")[what])


def siblings(container, c1, n1, c2, n2, explicit, v1, v2, indef):
    """Two sibling members whose tags come from the pool (same or different class, short and long form): the type accepts its
    own encoding with the right values, the members are told apart, and the type with the two tags exchanged rejects."""
    t1, t2 = ("ACP"[c1], POOL[n1]), ("ACP"[c2], POOL[n2])
    if t1 == t2:
        raise Skip()
    mode = "E" if explicit else "I"
    kind = "SEQ" if container == 0 else "SET"
    ta = T(kind, comps=[("a", T("INT").tagged((mode, t1[0], t1[1])), "req", None), ("b", T("INT").tagged((mode, t2[0], t2[1])), "req", None)])
    tb = T(kind, comps=[("a", T("INT").tagged((mode, t2[0], t2[1])), "req", None), ("b", T("INT").tagged((mode, t1[0], t1[1])), "req", None)])
    av = {"a": v1, "b": v2}

    class Ch(R.Choices):
        def indef(self, t, level):
            return indef and level == 0

    enc = bytes(R.ber_nd(ta, av, Ch()))
    mine = ber_encoder.encode(build(ta, av))
    if container == 0 and not indef and mine != enc:
        return "encoder output differs from the reference encoding of the two tagged members"
    try:
        w, rest = ber_decoder.decode(substrate(enc), asn1Spec=mk_type(ta))
    except error.PyAsn1Error:
        return "the type rejects its own encoding (sibling tags %s and %s)" % (t1, t2)
    if len(rest) or not same(ta, absval(ta, w), av):
        return "sibling members decoded to the wrong values"
    if container == 0:
        try:
            ber_decoder.decode(substrate(enc), asn1Spec=mk_type(tb))
        except error.PyAsn1Error:
            return None
        return "a SEQUENCE whose two member tags are exchanged accepts the encoding"
    # SET: members are found by tag, so the exchanged type accepts but must assign the values the other way round
    w2, rest2 = ber_decoder.decode(substrate(enc), asn1Spec=mk_type(tb))
    if not same(tb, absval(tb, w2), {"a": v2, "b": v1}):
        return "SET members were not matched by their tags"
    return None


def nested_same(c, ni, outer_explicit, inner_explicit, v, indef):
    """A tagged SEQUENCE whose member carries the *same* class and number: the same tag occurs in constructed and primitive form
    within one encoding.  Encoder output == reference; the type accepts it; the type with the inner number changed rejects."""
    cl, num = "ACP"[c], POOL[ni]
    inner = T("INT").tagged(("E" if inner_explicit else "I", cl, num))
    outer_tag = ("E" if outer_explicit else "I", cl, num)
    t = T("SEQ", comps=[("x", inner, "req", None), ("y", T("OCTS").tagged(("I", cl, num + 1)), "opt", None)]).tagged(outer_tag)
    t_bad = T("SEQ", comps=[("x", T("INT").tagged(("E" if inner_explicit else "I", cl, num + 1)), "req", None)]).tagged(outer_tag)
    av = {"x": v, "y": b"k"}

    class Ch(R.Choices):
        def indef(self, t_, level):
            return indef

    enc = bytes(R.ber_nd(t, av, Ch()))
    if not indef and ber_encoder.encode(build(t, av)) != enc:
        return "encoder output differs from the reference encoding (same tag nested in both forms)"
    try:
        w, rest = ber_decoder.decode(substrate(enc), asn1Spec=mk_type(t))
    except error.PyAsn1Error:
        return "the type rejects its own encoding (tag %s%d nested in constructed and primitive form)" % (cl, num)
    if len(rest) or not same(t, absval(t, w), av):
        return "decoded to a different value"
    try:
        ber_decoder.decode(substrate(enc), asn1Spec=mk_type(t_bad))
    except error.PyAsn1Error:
        return None
    return "a type whose inner tag number differs accepts the encoding"


def chunked_tags(sid, defMode, chunk, **slots):
    """Tagged string types encoded in fragments (maxChunkSize 1..2): the outer identifier octets are the type's tags with the constructed bit,
    the fragments carry the universal OCTET STRING / BIT STRING tag - judged by the independent reference reader."""
    from props import C03

    return C03.read_ber(sid, defMode, chunk, **slots)


OBLIGATIONS = [
    Obl("nested_same", nested_same, {"c": I(0, 2), "ni": I(0, len(POOL) - 1), "outer_explicit": B, "inner_explicit": B, "v": I(127, 128), "indef": B},
        shards=[{"ni": C(a), "outer_explicit": C(o_)} for a in range(len(POOL)) for o_ in (False, True)], budget=120,
        doc="the same class and number as the tag of a SEQUENCE and of its member (constructed and primitive form of one tag in one encoding), pool numbers incl. long form"),
    Obl("siblings", siblings, {"container": I(0, 1), "c1": I(0, 2), "n1": I(0, len(POOL) - 1), "c2": I(0, 2), "n2": I(0, len(POOL) - 1), "explicit": B,
                               "v1": I(5, 6), "v2": I(199, 200), "indef": B},
        shards=[{"container": C(k), "n1": C(a), "explicit": C(e_), "indef": C(i_)} for k in (0, 1) for a in range(len(POOL)) for e_ in (False, True) for i_ in (False, True)], budget=150,
        doc="two sibling members with pool tags (short/long form, equal/different class) in one SEQUENCE/SET: accepted, told apart, exchanged tags rejected"),
    Obl("ident_decode", ident_decode, {"c": I(0, 3), "f": B, "num": I(0, 2 ** 36), "tail": BYTE}, thorough={"num": I(0, 2 ** 63)},
        shards=[{"c": C(c)} for c in range(4)], budget=120, thorough_budget=400,
        doc="reference identifier octets -> real decoder identifier loop -> (class, form, number), for every number in range"),
    Obl("ident_roundtrip", ident_roundtrip, {"c": I(0, 3), "f": B, "num": I(0, 2 ** 36)}, thorough={"num": I(0, 2 ** 63)},
        shards=[{"c": C(c)} for c in range(4)], budget=120, thorough_budget=400,
        doc="real encodeTag -> real decoder identifier loop, for every number in range"),
    Obl("algebra", algebra, {"base": I(0, len(BASES) - 1), "constructed": B, "explicit": B, "c": I(0, 3), "ni": I(0, len(POOL) - 1)},
        shards=[{"base": C(b)} for b in range(len(BASES))], budget=120,
        doc="one tagging step from each representative stack vs a list model; explicit UNIVERSAL refused; identifier octets on the wire"),
]
for e in all_entries():
    if e.t.tags and (e.t.kind in ("OCTS", "BITS") or e.t.is_str) and not e.has("corpus"):
        OBLIGATIONS.append(entry_obl("chunked_tags", chunked_tags, e, extra={"defMode": B, "chunk": I(1, 2)}, narrow=True, budget=90))
for e in all_entries():
    if e.t.tags:
        OBLIGATIONS.append(entry_obl("perturb", perturb, e, extra={"level": I(0, 3), "what": I(0, 2)}, narrow=True, budget=90))
