"""C17 - native-Python codec round trip and Python-value encoding equivalence."""
from pyasn1 import error
from pyasn1.type import base
from pyasn1.codec.ber import encoder as ber_encoder
from pyasn1.codec.cer import encoder as cer_encoder
from pyasn1.codec.der import encoder as der_encoder
from pyasn1.codec.native import decoder as native_decoder
from pyasn1.codec.native import encoder as native_encoder

from props.common import *
from vfw.schema import T
from vfw.schema import STR_KINDS

BOUNDS = ("catalogue U_Q/U_T without ANY and REAL; values as C01 (BIT STRING lengths 0..10 incl. the empty one); native encode -> native decode "
          "under the same type; encode(python tree, asn1Spec=T) == encode(value object) for BER, CER, DER with OPTIONAL members simply absent from the mapping "
          "and DEFAULT members present or absent (symbolic flags)")
OUTSIDE = "REAL (native form is a Python float: rounding is outside the engine's sound reach); ANY on the bare-value path"


def _all_optional_record(t):
    from vfw.findings_lib import _walk

    return any(n.kind in ("SEQ", "SET") and n is not t and n.comps and all(c[2] != "req" for c in n.comps) for n in _walk(t))


def native_rt(sid, pre=0, **slots):
    e = by_id(sid)
    av = e.mk(**slots)
    v = build(e.t, av)
    if pre and isinstance(v, base.ConstructedAsn1Type):
        # the value has been looked at before (absent OPTIONAL scalars get valueless placeholders): the conversion must not care.
        # (for record types whose own members are all OPTIONAL the placeholder is a value: such a read is not read-only, see C19)
        if _all_optional_record(e.t) or e.t.kind == "CHOICE":
            raise Skip()
        if pre == 1 and hasattr(v, "values"):
            list(v.values())
        else:
            n_ = len(v.componentType) if e.t.kind in ("SEQ", "SET") else len(v)
            for i_ in range(n_):
                v.getComponentByPosition(i_)
    py = native_encoder.encode(v)
    w = native_decoder.decode(py, asn1Spec=mk_type(e.t))
    if not same(e.t, absval(e.t, w), av):
        return "native round trip changed the value"
    return None


def py_tree(t, av):
    """Plain Python objects equivalent to abstract value av of schema t (what a user would write by hand)."""
    k = t.kind
    if k in ("INT", "ENUM"):
        return av
    if k == "BOOL":
        return True if av else False
    if k == "OCTS":
        return av
    if k == "NULL":
        return ""
    if k == "OID":
        return tuple(av)
    if k == "BITS":
        nbits, val = av
        out = ""
        for i in range(nbits):
            out = ("1" if (val // (2 ** i)) % 2 else "0") + out
        return out
    if t.is_str:
        return bytes(av).decode(STR_KINDS[t.strkind][2])
    if k in ("SEQ", "SET"):
        out = {}
        for (name, ct, mode, dflt) in t.comps:
            if name in av:
                out[name] = py_tree(ct, av[name])
            elif mode == "def":
                out[name] = py_tree(ct, dflt)  # the library wants DEFAULT members spelled out in a mapping; OPTIONAL ones may be absent
        return out
    if k in ("SEQOF", "SETOF"):
        return [py_tree(t.elem, x) for x in av]
    if k == "CHOICE":
        name, inner = av
        ct = [c for c in t.comps if c[0] == name][0][1]
        return {name: py_tree(ct, inner)}
    raise ValueError(k)


def pyval_equiv(sid, codec, defMode=True, chunk=0, **slots):
    e = by_id(sid)
    av = e.mk(**slots)
    enc = (ber_encoder, cer_encoder, der_encoder)[codec]
    if codec == 0:
        # BER in every encoder mode: definite/indefinite lengths, string chunking
        class _Ber(object):
            @staticmethod
            def encode(v, **kw):
                return ber_encoder.encode(v, defMode=defMode, maxChunkSize=chunk, **kw)
        enc = _Ber
    want = enc.encode(build(e.t, av))
    got = enc.encode(py_tree(e.t, av), asn1Spec=mk_type(e.t))
    if got != want:
        return "encoding the Python tree with the schema differs from encoding the value object"
    # the tree the library itself produces for the value (NULL -> None, text -> str, containers -> dict/list) is such a tree as well
    got2 = enc.encode(native_encoder.encode(build(e.t, av)), asn1Spec=mk_type(e.t))
    if got2 != want:
        return "encoding the native encoder's Python tree with the schema differs from encoding the value object"
    return None


OBLIGATIONS = []
for e in all_entries():
    if e.has("real") or e.has("any"):
        continue
    # the native form of an OID is its dotted decimal text: arcs are narrowed (digit strings of symbolic ints are slow)
    OBLIGATIONS.append(entry_obl("native_rt", native_rt, e, narrow=e.id.startswith("oid"), extra={"pre": I(0, 2) if e.has("constructed") else C(0)}))
    OBLIGATIONS.append(entry_obl("pyval_equiv", pyval_equiv, e, extra={"codec": I(0, 2), "defMode": B, "chunk": I(0, 2)}, narrow=True,
                                 extra_shards=[{"codec": C(0)}, {"codec": C(1), "defMode": C(True), "chunk": C(0)}, {"codec": C(2), "defMode": C(True), "chunk": C(0)}]))


def pyval_twice(sid, codec, w_2, **slots):
    """Two different values of one SET type (they differ in the alternative of the untagged CHOICE member) are encoded one after the other
    as Python trees with ONE schema object: each must equal the encoding of its value object (no state kept per schema between calls)."""
    e = by_id(sid)
    enc = (ber_encoder, cer_encoder, der_encoder)[codec]
    spec = mk_type(e.t)
    for w in (slots["w"], w_2, slots["w"]):
        av = e.mk(**dict(slots, w=w))
        want = enc.encode(build(e.t, av))
        got = enc.encode(py_tree(e.t, av), asn1Spec=spec)
        if got != want:
            return "encoding the Python tree with the schema differs from encoding the value object (second value with the same schema object)"
    return None


for _sid in ("set_chx", "set_mixed"):
    _e = by_id(_sid)
    OBLIGATIONS.append(entry_obl("pyval_twice", pyval_twice, _e, extra={"codec": I(0, 2), "w_2": _e.params["w"]}, narrow=True,
                                 extra_shards=[{"codec": C(c_)} for c_ in range(3)], doc="two values of one SET type with different CHOICE alternatives through one schema object"))


def pyval_long(kind, size, x, cer):
    """Strings around the CER segment size given as plain Python values + schema vs as value objects (CER; BER chunked by 1000)."""
    t = [T("OCTS"), T("OCTS").tagged(("I", "C", 0)), T("OCTS").tagged(("E", "C", 1)), T("STR:UTF8"), T("STR:IA5").tagged(("I", "A", 3)),
         T("SEQ", comps=[("s", T("OCTS").tagged(("I", "C", 0)), "req", None), ("u", T("STR:UTF8"), "opt", None)])][kind]
    n = [1000, 1001, 2001][size]
    body = bytes([x]) + bytes([(i * 7 + 3) % 120 + 1 for i in range(n - 1)])
    av = {"s": body, "u": body[:1001]} if t.kind == "SEQ" else body
    if cer:
        want = cer_encoder.encode(build(t, av))
        got = cer_encoder.encode(py_tree(t, av), asn1Spec=mk_type(t))
    else:
        want = ber_encoder.encode(build(t, av), maxChunkSize=1000)
        got = ber_encoder.encode(py_tree(t, av), asn1Spec=mk_type(t), maxChunkSize=1000)
    if got != want:
        return "encoding the Python value with the schema differs from encoding the value object (long string)"
    return None


OBLIGATIONS.append(Obl("pyval_long", pyval_long, {"kind": I(0, 5), "size": I(0, 2), "x": I(1, 120), "cer": B}, shards=[{"kind": C(k_), "cer": C(c_)} for k_ in range(6) for c_ in (False, True)],
                       budget=150, per_path=60, doc="strings of 1000/1001/2001 octets as Python values + schema vs value objects, CER and chunked BER"))
