"""C18 - open types (ANY DEFINED BY) resolve by governing value and round-trip."""
from pyasn1 import error
from pyasn1.codec.ber import decoder as ber_decoder
from pyasn1.codec.ber import encoder as ber_encoder
from pyasn1.codec.cer import decoder as cer_decoder
from pyasn1.codec.cer import encoder as cer_encoder
from pyasn1.codec.der import decoder as der_decoder
from pyasn1.codec.der import encoder as der_encoder
from pyasn1.type import namedtype, opentype, tag, univ

from props.common import *
from vfw.schema import T

BOUNDS = ("containers SEQUENCE and SET {id INTEGER, blob ANY DEFINED BY id}, blob untagged / [3] IMPLICIT / [3] EXPLICIT, and SET OF ANY / SEQUENCE OF ANY blobs (0..2 "
          "elements); default map {1: INTEGER, 2: OCTET STRING, 3: SEQUENCE{x INTEGER, y BOOLEAN DEFAULT FALSE}, 4: SEQUENCE OF INTEGER}; governing value g in {0, mapped key, 5, 6, 2} "
          "(mapped, unmapped, mapped only by the caller's override); inner values symbolic (integers |n| <= 300, octets <= 2, 0..2 elements); codecs BER definite, BER indefinite, CER, DER; "
          "one-shot decode and StreamingDecoder; default map given complete or filled after the schema was built; decodeOpenTypes on/off; caller map {5: INTEGER, 2: INTEGER} (adding a key and redefining a key of the default map) present/absent")
OUTSIDE = "OID-governed maps (the governing value is hashed either way); maps to CHOICE; nested open types"

I_T = T("INT")
O_T = T("OCTS")
S_T = T("SEQ", comps=[("x", T("INT"), "req", None), ("y", T("BOOL"), "def", False)])
L_T = T("SEQOF", elem=T("INT"))
INNER = {1: I_T, 2: O_T, 3: S_T, 4: L_T}
CODECS = [(ber_encoder, ber_decoder, {"defMode": True}), (ber_encoder, ber_decoder, {"defMode": False}), (cer_encoder, cer_decoder, {}), (der_encoder, der_decoder, {})]

_CACHE = {}


def _schema(container, tagging, vector, late=False):
    key = (container, tagging, vector)
    if key in _CACHE and not late:
        return _CACHE[key]
    if late:
        # the documented run-time registration pattern: the schema is built around a (still empty) map that is filled afterwards
        live = {}
        ot = opentype.OpenType("id", live)
    else:
        ot = opentype.OpenType("id", dict((k, mk_type(t)) for k, t in INNER.items()))
    any_ = univ.Any()
    if tagging == 1:
        any_ = univ.Any().subtype(implicitTag=tag.Tag(tag.tagClassContext, tag.tagFormatSimple, 3))
    elif tagging == 2:
        any_ = univ.Any().subtype(explicitTag=tag.Tag(tag.tagClassContext, tag.tagFormatSimple, 3))
    if vector == 1:
        blob = univ.SetOf(componentType=any_)
    elif vector == 2:
        blob = univ.SequenceOf(componentType=any_)
    else:
        blob = any_
    base = univ.Sequence if container == 0 else univ.Set
    s = base(componentType=namedtype.NamedTypes(namedtype.NamedType("id", univ.Integer()), namedtype.NamedType("blob", blob, openType=ot)))
    if late:
        live.update((k, mk_type(t)) for k, t in INNER.items())
        return s
    _CACHE[key] = s
    return s


def _inner_av(which, n, o0, o1, f0, k):
    """abstract value of the typed inner value for map entry `which` (1..4)"""
    if which == 1:
        return n
    if which == 2:
        return bytes([o0, o1][:k])
    if which == 3:
        av = {"x": n}
        if f0:
            av["y"] = True
        return av
    return [n, 7][:k]


OVERRIDE = {5: 1, 2: 1}  # the caller's map: 5 -> INTEGER (not in the default map), 2 -> INTEGER (the default map says OCTET STRING)


def _resolved_which(g, override):
    if override and g in OVERRIDE:
        return OVERRIDE[g]
    if g in INNER:
        return g
    return None


def opentype_rt(container, tagging, vector, codec, gsel, which, n, o0, o1, f0, k, nelem, resolve, override, streaming=False, late=False):
    # governing value: 0 = unmapped (0), 1 = the key mapped to the inner value's type, 2 = 5 (mapped only by the caller's override), 3 = 6 (unmapped),
    # 4 = 2 (mapped by the default map AND redefined by the caller's override)
    g = (0, which, 5, 6, 2)[gsel]
    spec = _schema(container, tagging, vector, late)
    enc, dec, eopts = CODECS[codec]
    # the inner value's type: the one the applicable map says when g is mapped, otherwise any of the four (the field is opaque then)
    rw = _resolved_which(g, override)
    if rw is not None and which != rw:
        raise Skip()
    if container == 1 and tagging == 0 and which == 1:
        raise Skip()  # an untagged ANY holding an INTEGER next to `id INTEGER` in a SET is ambiguous ASN.1 (members must have distinct tags)
    it = INNER[which]
    iav = _inner_av(which, n, o0, o1, f0, k)
    v = spec.clone()
    v["id"] = g
    if vector:
        for i in range(nelem):
            v["blob"].append(build(it, iav))
        if nelem == 0:
            v["blob"].clear()
    else:
        v["blob"] = build(it, iav)
    octets = enc.encode(v, **eopts)
    dopts = {}
    if resolve:
        dopts["decodeOpenTypes"] = True
    if override:
        dopts["openTypes"] = dict((key, mk_type(INNER[w_])) for key, w_ in OVERRIDE.items())
    if streaming:
        # the same options through the public StreamingDecoder
        import io as _io
        from vfw import streams as _vs

        sub = _vs.SymStream(octets) if _vs.SYMBOLIC else _io.BytesIO(bytes(octets))
        objs = [o_ for o_ in dec.StreamingDecoder(sub, asn1Spec=spec, **dopts)]
        if len(objs) != 1 or isinstance(objs[0], error.SubstrateUnderrunError):
            return "streaming decoder did not yield exactly one object"
        w, rest = objs[0], b""
    else:
        w, rest = dec.decode(substrate(octets), asn1Spec=spec, **dopts)
    if len(rest) != 0:
        return "remainder left"
    if int(w["id"]) != g:
        return "governing value changed"
    # `openTypes` given implies resolution as well (decoder: `if openTypes or decodeOpenTypes`)
    resolving = resolve or override
    mapped = rw is not None
    resolved_t = INNER[rw] if mapped else None
    # what the field must hold when it stays opaque: the complete encoding of the inner value in this codec
    inner_octets = enc.encode(build(it, iav), **eopts)
    blob = w["blob"]
    items = [blob[i] for i in range(len(blob))] if vector else [blob]
    if vector and len(items) != nelem:
        return "number of elements changed"
    for item in items:
        if resolving and mapped:
            if isinstance(item, univ.Any):
                return "open type not resolved although the governing value is mapped"
            if item.__class__ is not mk_type(resolved_t).__class__ or item.tagSet != mk_type(resolved_t).tagSet:
                return "open type resolved to another type than the applicable map says"
            if not same(resolved_t, absval(resolved_t, item), iav):
                return "resolved inner value differs"
        else:
            if not isinstance(item, univ.Any):
                return "field resolved although resolution is off or the governing value is unmapped"
            if item.asOctets() != inner_octets:
                return "opaque field does not hold the complete encoding of the inner value"
    return None


P = {"container": I(0, 1), "tagging": I(0, 2), "vector": I(0, 2), "codec": I(0, 3), "gsel": I(0, 4), "which": I(1, 4), "n": I(127, 128), "o0": BYTE, "o1": BYTE,
     "f0": B, "k": I(0, 1), "nelem": I(0, 2), "resolve": B, "override": B, "streaming": B, "late": B}


def _shards(tier):
    out = []
    for c in (0, 1):
        for t in (0, 1, 2):
            if tier == "quick" and c == 1 and t != 2:
                continue
            for v in (0, 1, 2):
                if tier == "quick" and v == 2:
                    continue
                for k in range(4):
                    for w in (1, 2, 3, 4):
                        sh = {"container": C(c), "tagging": C(t), "vector": C(v), "codec": C(k), "which": C(w)}
                        if not v:
                            sh["nelem"] = C(0)
                        else:
                            # vector forms: structure is the subject, element contents are fixed
                            sh.update(o0=C(65), o1=C(0), n=C(200))
                        if w in (1, 3):
                            sh["k"] = C(0)
                        if w != 2:
                            sh.update(o0=C(0), o1=C(0))
                        if w != 3:
                            sh["f0"] = C(False)
                        out.append(sh)
    return out


OBLIGATIONS = [
    Obl("opentype_rt", opentype_rt, P, shards=_shards("quick"), thorough_shards=_shards("thorough"), thorough={"n": I(0, 200)}, budget=180, thorough_budget=400,
        doc="encode typed inner value -> decode with/without open type resolution, every codec, tagging, container and vector form"),
]
