"""C03 - encoder output equals the X.690 encoding computed by an independent reference."""
from pyasn1.codec.ber import encoder as ber_encoder
from pyasn1.codec.cer import encoder as cer_encoder
from pyasn1.codec.der import encoder as der_encoder

from props.common import *
from vfw import x690ref as R

BOUNDS = ("catalogue U_Q/U_T with C01's value ranges; identifier-octet kernel: every class, both forms, tag number < 2^36 (quick) / 2^63; "
          "length-octet kernel: every length < 2^40 (2^62); INTEGER content kernel |n| <= 2^33 (2^65); SET OF ordering with 2-3 symbolic members")
OUTSIDE = "REAL base 10 / floats; tag numbers and lengths beyond the kernel ranges; schemas outside the catalogue"
ASSUMPTIONS = ["the reference encoder/reader vfw/x690ref.py is part of the trusted base (validated against X.690 worked examples and the repository's own expected encodings in setup)",
               "identifier/length kernels call AbstractItemEncoder.encodeTag/encodeLength directly (tag numbers that reach Tag() are hashed and hence enumerated)"]


def diff_der(sid, **slots):
    e = by_id(sid)
    av = e.mk(**slots)
    got = der_encoder.encode(build(e.t, av))
    want = bytes(R.der(e.t, av))
    if got != want:
        return "DER output differs from the reference distinguished encoding"
    return None


def read_ber(sid, defMode, chunk, **slots):
    e = by_id(sid)
    av = e.mk(**slots)
    got = ber_encoder.encode(build(e.t, av), defMode=defMode, maxChunkSize=chunk)
    try:
        back, n = R.read(e.t, got)
    except R.BadEncoding as ex:
        return "reference reader rejects BER output: %s" % (ex,)
    if n != len(got):
        return "reference reader stops before the end of the BER output"
    if not same(e.t, back, av):
        return "BER output denotes a different value"
    return None


def read_cer(sid, **slots):
    e = by_id(sid)
    av = e.mk(**slots)
    got = cer_encoder.encode(build(e.t, av))
    try:
        back, n = R.read(e.t, got)
    except R.BadEncoding as ex:
        return "reference reader rejects CER output: %s" % (ex,)
    if n != len(got):
        return "reference reader stops before the end of the CER output"
    if not same(e.t, back, av):
        return "CER output denotes a different value"
    msg = R.cer_rules(e.t, got)
    if msg:
        return "CER canonical-form rule broken: %s" % msg
    return None


def _kernel_encoder():
    try:
        enc = ber_encoder.AbstractItemEncoder()
        enc.encodeTag, enc.encodeLength
    except AttributeError:
        raise Skip()
    return enc


def len_kernel(n):
    enc = _kernel_encoder()
    got = tuple(enc.encodeLength(n, True))
    want = tuple(R.enc_len(n))
    if got != want:
        return "length octets differ from X.690 8.1.3 minimal form"
    return None


def tag_kernel(c, constructed_tag, constructed_value, num):
    from pyasn1.type import tag

    enc = _kernel_encoder()
    cls = (tag.tagClassUniversal, tag.tagClassApplication, tag.tagClassContext, tag.tagClassPrivate)[c]
    fmt = tag.tagFormatConstructed if constructed_tag else tag.tagFormatSimple
    got = tuple(enc.encodeTag((cls, fmt, num), constructed_value))
    want = tuple(R.enc_ident("UACP"[c], num, constructed_tag or constructed_value))
    if got != want:
        return "identifier octets differ from X.690 8.1.2"
    return None


def long_cer(kind, size, x):
    """CER 1000-octet segmentation of long strings, checked by the reference reader and rules."""
    from vfw.schema import T

    t = [T("OCTS"), T("STR:UTF8").tagged(("I", "C", 1)), T("BITS"), T("BITS").tagged(("I", "C", 5))][kind]
    n = [999, 1000, 1001, 2001][size]
    body = bytes([x]) + bytes([(i * 7 + 3) % 120 + 1 for i in range(n - 1)])
    av = body if kind < 2 else (n * 8 - 3, int.from_bytes(body, "big") // 8)
    got = cer_encoder.encode(build(t, av))
    try:
        back, m = R.read(t, got)
    except R.BadEncoding as ex:
        return "reference reader rejects CER output: %s" % (ex,)
    if m != len(got) or not same(t, back, av):
        return "CER output denotes a different value"
    msg = R.cer_rules(t, got)
    if msg:
        return msg
    # segments must be exactly 1000 content octets except the last (X.690 9.2)
    if n > 1000:
        r = R.read_tlv(got, 0)
        kids = R._children(got, r[3], r[4])
        sizes = [k[1][4] - k[1][3] for k in kids]
        if any(s != 1000 for s in sizes[:-1]) or sizes[-1] > 1000 or sizes[-1] == 0:
            return "CER segments are not 1000 octets each: %s" % (sizes,)
    return None


OBLIGATIONS = []
for e in all_entries():
    OBLIGATIONS.append(entry_obl("diff_der", diff_der, e))
    OBLIGATIONS.append(entry_obl("read_ber", read_ber, e, extra={"defMode": B, "chunk": I(0, 2 ** 31 - 1)}))
    OBLIGATIONS.append(entry_obl("read_cer", read_cer, e))
OBLIGATIONS.append(Obl("len_kernel", len_kernel, {"n": I(0, 2 ** 40)}, thorough={"n": I(0, 2 ** 62)}, budget=60,
                       doc="encodeLength(n) == X.690 minimal definite length octets for every n in range"))
OBLIGATIONS.append(Obl("tag_kernel", tag_kernel, {"c": I(0, 3), "constructed_tag": B, "constructed_value": B, "num": I(0, 2 ** 36)},
                       thorough={"num": I(0, 2 ** 63)}, shards=[{"c": C(c)} for c in range(4)], budget=120, thorough_budget=400,
                       doc="encodeTag == X.690 identifier octets for every class x form x number in range"))
OBLIGATIONS.append(Obl("long_cer", long_cer, {"kind": I(0, 3), "size": I(0, 3), "x": I(1, 120)},
                       shards=[{"kind": C(k)} for k in range(2)] + [{"kind": C(k), "size": C(z), "x": C(7)} for k in (2, 3) for z in range(4)], budget=120, per_path=60,
                       doc="CER segmentation at 999/1000/1001/2001 octets"))

# exponent-octet sign boundaries of binary REALs (third sensitivity round): cheap, so also in the quick tier here
promote(OBLIGATIONS, ["real_exp"])
