"""C09 - every valid BER form of a value decodes to that value."""
from pyasn1.codec.ber import decoder as ber_decoder

from props.common import *
from vfw import x690ref as R

BOUNDS = ("catalogue U_Q/U_T (value slots narrowed to 2 size classes); BER forms produced by the reference nondeterministic writer with symbolic "
          "choice points: length padding 0..2 at top level and at nested levels, definite/indefinite at top level and at nested levels, "
          "TRUE octet 1..255, SET permutation index, DEFAULT members present/absent, string segmentation "
          "{primitive, 2 segments at a symbolic split, nested definite, nested indefinite, none/one segment} applied to all strings or only to the k-th one (k symbolic); decoder length kernel: every length < 2^40, padding 0..2")
OUTSIDE = "independent choice per element beyond top/nested; segmentation trees deeper than 2 or wider than 3 segments"
ASSUMPTIONS = ["the reference BER writer vfw/x690ref.py (ber_nd) is trusted to produce only encodings X.690 permits"]


class SymChoices(R.Choices):
    def __init__(self, pad0, padn, indef0, indefn, true_octet, perm, keepdef, seg, sp, segpos=-1):
        self.segpos, self._strings = segpos, 0
        self.pad0, self.padn, self.indef0, self.indefn = pad0, padn, indef0, indefn
        self.true = true_octet
        self.permi, self.keepdef, self.seg, self.sp = perm, keepdef, seg, sp

    def _top(self, level):
        return level == 0 or (isinstance(level, tuple) and level[1] == 0 and level[2] == 0)

    def pad(self, t, level):
        return self.pad0 if self._top(level) else self.padn

    def indef(self, t, level):
        return self.indef0 if self._top(level) else self.indefn

    def true_octet(self):
        return self.true

    def keep_default(self, t, name):
        return self.keepdef

    def perm(self, t, n):
        idx = list(range(n))
        # permi-th rotation followed by an optional swap of the first two (covers all orders for n <= 3)
        if n <= 1:
            return idx
        r = self.permi % n
        idx = idx[r:] + idx[:r]
        if (self.permi // n) % 2 == 1:
            idx[0], idx[1] = idx[1], idx[0]
        return idx

    def segments(self, t, content):
        if self.seg == 0:
            return None
        # segpos >= 0: only that occurrence of a string (in encoding order) is segmented, the others stay primitive
        mine = self._strings
        self._strings += 1
        if self.segpos >= 0 and mine != self.segpos:
            return None
        c = list(content)
        if t.kind == "BITS":
            # fragments of a BIT STRING each carry their own unused-bits octet; only the last may be non-zero
            unused, data = c[0], c[1:]
            sp = self.sp
            if sp > len(data):
                sp = len(data)
            if unused and sp == len(data):
                sp = len(data) - 1
            a, b = [0] + data[:sp], [unused] + data[sp:]
            if self.seg == 1 or self.seg == 4:
                return [a, b]
            if self.seg == 2:
                return [("C", [a], False), b]
            return [("C", [a], True), b]
        sp = self.sp
        if sp > len(c):
            sp = len(c)
        a, b = c[:sp], c[sp:]
        if self.seg == 4:
            # X.690 8.7.3: "zero, one or more" segments - none for an empty string, otherwise a single one
            return [c] if c else []
        if self.seg == 1:
            return [a, b]
        if self.seg == 2:
            return [("C", [a, b], False), []]
        return [("C", [a], True), b]


def forms(sid, pad0, padn, indef0, indefn, true_octet, perm, keepdef, seg, sp, segpos=-1, **slots):
    e = by_id(sid)
    av = e.mk(**slots)
    ch = SymChoices(pad0, padn, indef0, indefn, true_octet, perm, keepdef, seg, sp, segpos)
    enc = bytes(R.ber_nd(e.t, av, ch))
    w, rest = ber_decoder.decode(substrate(enc), asn1Spec=mk_type(e.t))
    if len(rest) != 0:
        return "remainder left"
    if not same(e.t, absval(e.t, w), av):
        return "a valid BER form decodes to a different value"
    return None


def len_forms(n, pad, x):
    """Decoder's length kernel: every definite length < 2^40 in minimal and padded long forms.

    The payload is not materialised: a probe payload codec captures (tag, length) the framing code derived."""
    from pyasn1.type import univ

    class Captured(Exception):
        def __init__(self, length):
            self.length = length

    class Probe(object):
        protoComponent = univ.OctetString("")

        def valueDecoder(self, substrate, asn1Spec, tagSet=None, length=None, state=None, decodeFun=None, substrateFun=None, **options):
            raise Captured(length)
            yield None

        indefLenValueDecoder = valueDecoder

    try:
        tm = dict(ber_decoder.TAG_MAP)
        tm[univ.OctetString.tagSet] = Probe()
        dec = ber_decoder.SingleItemDecoder(tagMap=tm, typeMap={})
    except (AttributeError, TypeError):
        raise Skip()
    head = bytes([4] + R.enc_len(n, pad) + [x])
    try:
        for _ in dec(streams_sub(head)):
            pass
    except Captured as c:
        if c.length != n:
            return "decoder read length %s for encoded length %s" % (c.length, n)
        return None
    return "probe payload codec not reached"


def streams_sub(data):
    from vfw.streams import SymStream
    import io
    from vfw import streams

    return SymStream(data) if streams.SYMBOLIC else io.BytesIO(bytes(data))


FORMP = {"pad0": I(0, 2), "padn": I(0, 2), "indef0": B, "indefn": B, "true_octet": I(1, 255), "perm": I(0, 5), "keepdef": B, "seg": I(0, 4), "sp": I(0, 3), "segpos": I(-1, 2)}


def _relevant(e):
    """Fix the choice points that cannot matter for this schema (keeps the path tree small)."""
    from vfw.findings_lib import _walk

    kinds = set(t.kind for t in _walk(e.t))
    strs = any(t.kind in ("OCTS", "BITS") or t.is_str for t in _walk(e.t))
    p = dict(FORMP)
    if "BOOL" not in kinds:
        p["true_octet"] = C(255)
    if "SET" not in kinds:
        p["perm"] = C(0)
    if not any(c[2] == "def" for t in _walk(e.t) for c in t.comps):
        p["keepdef"] = C(False)
    if not strs:
        p["seg"] = C(0)
        p["sp"] = C(0)
    if e.id not in ("seqof_octs.E", "setof_octs", "seq", "set"):
        p["segpos"] = C(-1)  # per-occurrence segmentation only where a value holds several strings (keeps the quick tier small)
    nested = any(True for t in _walk(e.t) if t is not e.t) or len(e.t.tag_list()) > 1 or strs
    if not nested:
        p["padn"] = C(0)
        p["indefn"] = C(False)
    if not (e.t.constructed_content() or strs or len(e.t.tag_list()) > 1 or e.t.kind in ("CHOICE", "ANY")):
        p["indef0"] = C(False)
    return p


DEFAULTS = {"pad0": C(0), "padn": C(0), "indef0": C(False), "indefn": C(False), "true_octet": C(255), "perm": C(0), "keepdef": C(False), "seg": C(0), "sp": C(0), "segpos": C(-1)}
FAMILIES = {
    # quick tier: one family of choice points at a time (sum, not product); thorough: the full product ("forms")
    "forms_len": ("pad0", "padn"),
    "forms_indef": ("indef0", "indefn"),
    "forms_seg": ("seg", "sp", "indef0", "segpos"),
    "forms_set": ("perm", "keepdef", "true_octet", "indef0"),
}

OBLIGATIONS = []
for e in all_entries(ber_only=True):
    p = _relevant(e)
    sh = [{"seg": C(s)} for s in range(5)] if p["seg"][0] != "const" else None
    OBLIGATIONS.append(entry_obl("forms", forms, e, extra=p, narrow=True, budget=120, thorough_budget=400, extra_shards=sh, tiers=("thorough",)))
    if e.id not in QUICK_IDS:
        continue
    for fam, dims in FAMILIES.items():
        q = dict(DEFAULTS)
        free = [d for d in dims if p[d][0] != "const"]
        if not free or (fam == "forms_set" and all(d == "indef0" for d in free)) or (fam == "forms_seg" and "seg" not in free):
            continue
        if fam in ("forms_seg", "forms_set") and e.has("tagged", "constructed"):
            continue  # tag stacks over constructed types: covered by the len/indef families in quick, by the product in thorough
        for d in free:
            q[d] = p[d]
        if e.id != "seqof_octs.E":
            q["segpos"] = C(-1)
        fsh = [{"seg": C(s_)} for s_ in range(5)] if fam == "forms_seg" else None
        OBLIGATIONS.append(entry_obl(fam, forms, e, extra=q, narrow=True, budget=90, tiers=("quick",), extra_shards=fsh))
OBLIGATIONS.append(Obl("len_forms", len_forms, {"n": I(0, 2 ** 40), "pad": I(0, 2), "x": BYTE}, thorough={"n": I(0, 2 ** 62)}, budget=60,
                       doc="decoder length octets: every n in range, minimal and over-long forms"))

# quick tier: entries added for other properties' sake run in the thorough tier only here
demote(OBLIGATIONS, ['set_chx', 'seq_hitags', 'seq_hitags.E', 'seq_wide', 'seq_optnull', 'seqof_choice_cons'])
demote(OBLIGATIONS, ['set_optc', 'seq_defl', 'seq_any_def'])
