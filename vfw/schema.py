"""Schema descriptions independent of pyasn1, and the bridge to pyasn1 objects.

A schema is a tree of `T` nodes.  Abstract values (independent of pyasn1's __eq__):

  BOOL  -> bool            INT/ENUM -> int          NULL -> None
  OCTS  -> bytes           STR:<kind> -> bytes (the string's octets in the type's encoding)
  BITS  -> (nbits, intval) OID -> tuple of ints     ANY -> bytes (complete inner encoding)
  REAL  -> ('R', m, e) with value m*2^e normalised (m odd or 0), 'inf', '-inf', ('R10', m, e)
  SEQ/SET -> dict name -> abs   (absent OPTIONAL omitted; DEFAULT equal to default omitted)
  SEQOF -> list, SETOF -> list (compared as multiset by callers via `norm`)
  CHOICE -> (name, abs)
"""
from pyasn1.type import char, namedtype, namedval, tag, univ, useful

CLS = {"U": tag.tagClassUniversal, "A": tag.tagClassApplication, "C": tag.tagClassContext, "P": tag.tagClassPrivate}

STR_KINDS = {
    # kind: (pyasn1 class, universal tag number, python codec)
    "UTF8": (char.UTF8String, 12, "utf-8"),
    "Numeric": (char.NumericString, 18, "us-ascii"),
    "Printable": (char.PrintableString, 19, "us-ascii"),
    "Teletex": (char.TeletexString, 20, "iso-8859-1"),
    "Videotex": (char.VideotexString, 21, "iso-8859-1"),
    "IA5": (char.IA5String, 22, "us-ascii"),
    "Graphic": (char.GraphicString, 25, "iso-8859-1"),
    "Visible": (char.VisibleString, 26, "us-ascii"),
    "General": (char.GeneralString, 27, "iso-8859-1"),
    "Universal": (char.UniversalString, 28, "utf-32-be"),
    "BMP": (char.BMPString, 30, "utf-16-be"),
    "ObjectDescriptor": (useful.ObjectDescriptor, 7, "us-ascii"),
    "GeneralizedTime": (useful.GeneralizedTime, 24, "us-ascii"),
    "UTCTime": (useful.UTCTime, 23, "us-ascii"),
}

UNIV_TAG = {"BOOL": 1, "INT": 2, "BITS": 3, "OCTS": 4, "NULL": 5, "OID": 6, "REAL": 9, "ENUM": 10,
            "SEQ": 16, "SEQOF": 16, "SET": 17, "SETOF": 17}

ENUM_VALUES = (("a", 0), ("b", 1), ("c", 5))


class T(object):
    """Schema node.  tags: list of (mode, cls, num), innermost first; mode 'I' implicit / 'E' explicit."""

    def __init__(self, kind, tags=(), comps=(), elem=None, name=None):
        self.kind = kind
        self.tags = tuple(tags)
        self.comps = tuple(comps)  # (name, T, mode, default_abs) mode in req/opt/def
        self.elem = elem
        self.name = name or kind
        self._type = None

    def tagged(self, *tags):
        return T(self.kind, self.tags + tuple(tags), self.comps, self.elem, self.name + "".join(
            "[%s%s%d]" % (m, c, n) for (m, c, n) in tags))

    @property
    def is_str(self):
        return self.kind.startswith("STR:")

    @property
    def strkind(self):
        return self.kind[4:]

    def __repr__(self):
        return "T(%s)" % self.name

    # ---- X.690 view of the tags --------------------------------------------------------
    def base_tag(self):
        """(cls, num) of the untagged type; None for CHOICE/ANY."""
        if self.kind in UNIV_TAG:
            return ("U", UNIV_TAG[self.kind])
        if self.is_str:
            return ("U", STR_KINDS[self.strkind][1])
        return None

    def tag_list(self):
        """Tags outermost first as (cls, num, is_explicit_wrapper); last entry is the content's own tag.

        For CHOICE/ANY (no own tag) only explicit wrappers are possible; returns just the wrappers.
        """
        cur = self.base_tag()
        stack = [] if cur is None else [cur]
        for (m, c, n) in self.tags:
            if m == "I":
                if not stack:
                    raise ValueError("implicit tag on untagged type")
                stack[-1] = (c, n)
            else:
                stack.append((c, n))
        # stack is innermost first
        out = list(reversed(stack))
        return out

    def constructed_content(self):
        return self.kind in ("SEQ", "SET", "SEQOF", "SETOF")


def _tag(c, n, constructed=False):
    return tag.Tag(CLS[c], tag.tagFormatConstructed if constructed else tag.tagFormatSimple, n)


def mk_type(t):
    """pyasn1 schema object for T (cached on the node)."""
    if t._type is not None:
        return t._type
    k = t.kind
    if k == "BOOL":
        o = univ.Boolean()
    elif k == "INT":
        o = univ.Integer()
    elif k == "ENUM":
        o = univ.Enumerated(namedValues=namedval.NamedValues(*ENUM_VALUES))
    elif k == "BITS":
        o = univ.BitString()
    elif k == "OCTS":
        o = univ.OctetString()
    elif k == "NULL":
        o = univ.Null()
    elif k == "OID":
        o = univ.ObjectIdentifier()
    elif k == "REAL":
        o = univ.Real()
    elif k == "ANY":
        o = univ.Any()
    elif t.is_str:
        o = STR_KINDS[t.strkind][0]()
    elif k in ("SEQ", "SET"):
        nts = []
        for (name, ct, mode, dflt) in t.comps:
            if mode == "req":
                nts.append(namedtype.NamedType(name, mk_type(ct)))
            elif mode == "opt":
                nts.append(namedtype.OptionalNamedType(name, mk_type(ct)))
            else:
                nts.append(namedtype.DefaultedNamedType(name, build(ct, dflt)))
        o = (univ.Sequence if k == "SEQ" else univ.Set)(componentType=namedtype.NamedTypes(*nts))
    elif k in ("SEQOF", "SETOF"):
        o = (univ.SequenceOf if k == "SEQOF" else univ.SetOf)(componentType=mk_type(t.elem))
    elif k == "CHOICE":
        o = univ.Choice(componentType=namedtype.NamedTypes(*[namedtype.NamedType(n, mk_type(ct)) for (n, ct, _m, _d) in t.comps]))
    else:
        raise ValueError(k)
    for (m, c, n) in t.tags:
        if m == "I":
            o = o.subtype(implicitTag=_tag(c, n))
        else:
            o = o.subtype(explicitTag=_tag(c, n))
    t._type = o
    return o


def build(t, av):
    """pyasn1 value object of schema t with abstract value av (fresh object every call)."""
    spec = mk_type(t)
    k = t.kind
    if k == "BOOL":
        return spec.clone(1 if av else 0)
    if k in ("INT", "ENUM"):
        return spec.clone(av)
    if k == "OCTS" or k == "ANY":
        return spec.clone(av)
    if k == "NULL":
        return spec.clone("")
    if k == "OID":
        return spec.clone(tuple(av))
    if k == "BITS":
        nbits, val = av
        if nbits == 0:
            return spec.clone("")
        return spec.clone(univ.SizedInteger(val).setBitLength(nbits))
    if k == "REAL":
        if av == "inf":
            return spec.clone("inf")
        if av == "-inf":
            return spec.clone("-inf")
        if av[0] == "R":
            return spec.clone((av[1], 2, av[2]))
        return spec.clone((av[1], 10, av[2]))
    if t.is_str:
        return spec.clone(av)  # octets in the type's own encoding
    if k in ("SEQ", "SET"):
        o = spec.clone()
        for (name, ct, mode, dflt) in t.comps:
            if name in av:
                o.setComponentByName(name, build(ct, av[name]))
        return o
    if k in ("SEQOF", "SETOF"):
        o = spec.clone()
        for i, x in enumerate(av):
            o.setComponentByPosition(i, build(t.elem, x))
        if not av:
            o.clear()  # an empty value (not a schema object)
        return o
    if k == "CHOICE":
        o = spec.clone()
        name, inner = av
        ct = [c for c in t.comps if c[0] == name][0][1]
        o.setComponentByName(name, build(ct, inner))
        return o
    raise ValueError(k)


def norm_real(m, e):
    """(m, e) with m*2^e, m odd or zero."""
    if m == 0:
        return ("R", 0, 0)
    while m % 2 == 0:
        m //= 2
        e += 1
    return ("R", m, e)


def absval(t, o):
    """Abstract value of pyasn1 object o read along schema t (independent of pyasn1's __eq__)."""
    k = t.kind
    if k == "BOOL":
        return int(o) != 0
    if k in ("INT", "ENUM"):
        return int(o)
    if k == "OCTS" or k == "ANY":
        return o.asOctets()
    if k == "NULL":
        return None
    if k == "OID":
        return tuple(o.asTuple())
    if k == "BITS":
        n = len(o)
        return (n, o.asInteger() if n else 0)
    if k == "REAL":
        if o.isPlusInf:
            return "inf"
        if o.isMinusInf:
            return "-inf"
        m, b, e = tuple(o)
        if m == 0:
            return ("R", 0, 0)
        if b == 2:
            return norm_real(m, e)
        return ("R10", m, e)
    if t.is_str:
        return o.asOctets()
    if k in ("SEQ", "SET"):
        out = {}
        for idx, (name, ct, mode, dflt) in enumerate(t.comps):
            c = o.getComponentByPosition(idx, default=None, instantiate=False)
            if c is None:
                continue
            a = absval(ct, c)
            if mode == "def" and norm(ct, a) == norm(ct, dflt):
                continue
            out[name] = a
        return out
    if k in ("SEQOF", "SETOF"):
        return [absval(t.elem, o.getComponentByPosition(i, instantiate=False)) for i in range(len(o))]
    if k == "CHOICE":
        name = o.getName()
        ct = [c for c in t.comps if c[0] == name][0][1]
        return (name, absval(ct, o.getComponent()))
    raise ValueError(k)


def _key(x):
    return repr(x)


def norm(t, av):
    """Canonical comparable form of an abstract value (DEFAULTs removed, SET OF as sorted multiset)."""
    k = t.kind
    if k in ("SEQ", "SET"):
        out = {}
        for (name, ct, mode, dflt) in t.comps:
            if name in av:
                a = norm(ct, av[name])
                if mode == "def" and a == norm(ct, dflt):
                    continue
                out[name] = a
        return out
    if k == "SEQOF":
        return [norm(t.elem, x) for x in av]
    if k == "SETOF":
        return sorted_multiset([norm(t.elem, x) for x in av])
    if k == "CHOICE":
        name, inner = av
        ct = [c for c in t.comps if c[0] == name][0][1]
        return (name, norm(ct, inner))
    if k == "REAL" and av not in ("inf", "-inf"):
        if av[1] == 0:
            return ("R", 0, 0)
        if av[0] == "R":
            return norm_real(av[1], av[2])
    if k == "BOOL":
        return bool(av)
    if k == "OID":
        return tuple(av)
    return av


def sorted_multiset(items):
    """Order-insensitive canonical list without relying on cross-type ordering: selection by equality."""
    out = []
    for x in items:
        out.append(x)
    # insertion sort on repr would realise symbolics; instead callers compare with multiset_eq
    return ("MULTISET", out)


def multiset_eq(a, b):
    a, b = list(a), list(b)
    if len(a) != len(b):
        return False
    used = [False] * len(b)
    for x in a:
        hit = False
        for j, y in enumerate(b):
            if not used[j] and deep_eq(x, y):
                used[j] = True
                hit = True
                break
        if not hit:
            return False
    return True


def deep_eq(a, b):
    """Structural equality with SET OF compared as multisets."""
    if isinstance(a, tuple) and len(a) == 2 and a[0] == "MULTISET":
        return isinstance(b, tuple) and len(b) == 2 and b[0] == "MULTISET" and multiset_eq(a[1], b[1])
    if isinstance(a, dict):
        if not isinstance(b, dict) or set(a.keys()) != set(b.keys()):
            return False
        for k in a:
            if not deep_eq(a[k], b[k]):
                return False
        return True
    if isinstance(a, (list, tuple)) and not isinstance(a, bytes):
        if not isinstance(b, (list, tuple)) or len(a) != len(b):
            return False
        for x, y in zip(a, b):
            if not deep_eq(x, y):
                return False
        return True
    if a is None or b is None:
        return a is None and b is None
    return a == b


def same(t, av1, av2):
    return deep_eq(norm(t, av1), norm(t, av2))
