"""Pure-Python stream doubles: symbolic octets and positions survive inside them.

Each implements the documented io.RawIOBase / io.BufferedIOBase surface pyasn1's decoder uses
(read, seek, tell, seekable, optionally markedPosition).  They are *environment stubs*: listed in
every evidence file.  In concrete replay `substrate()` hands the real `bytes` to pyasn1 so that the
real io.BytesIO path is exercised and the double is validated against it.
"""
import io
import os

SYMBOLIC = False  # set True by the worker while exploring symbolically


def _is_none(x):
    return x is None


class SymStream(object):
    """Seekable in-memory stream over a bytes-like (possibly symbolic) object."""

    def __init__(self, data):
        self._data = data
        self._pos = 0
        self.reads = 0
        self.markedPosition = 0

    def seekable(self):
        return True

    def readable(self):
        return True

    def tell(self):
        return self._pos

    def seek(self, n=0, whence=os.SEEK_SET):
        if whence == os.SEEK_SET:
            p = n
        elif whence == os.SEEK_CUR:
            p = self._pos + n
        else:
            p = len(self._data) + n
        if p < 0:
            raise ValueError("negative seek position")
        self._pos = p
        return p

    def read(self, n=-1):
        self.reads += 1
        size = len(self._data)
        if self._pos >= size:
            return b""
        if n is None or n < 0:
            end = size
        else:
            end = self._pos + n
            if end > size:
                end = size
        r = self._data[self._pos:end]
        self._pos = end
        return r


class TruncatedStream(SymStream):
    """Stream that ends (is closed) after `k` octets of data."""

    def __init__(self, data, k):
        SymStream.__init__(self, data[:k])


class ArrivalStream(object):
    """Non-blocking, seekable, growing stream.

    `avail` octets have arrived so far.  read(n) returns None when nothing new is available and
    the stream is still open, a short read when fewer than n octets have arrived, b'' only after
    the writer closed and everything was consumed (io.RawIOBase non-blocking contract).
    """

    def __init__(self, data, cuts, eof_with_last=True, seekable=True):
        self._data = data
        self._cuts = list(cuts)
        self._idx = 0
        self._avail = self._cuts[0] if self._cuts else len(data)
        self._total = len(data)
        self._closed = False
        self._eof_with_last = eof_with_last
        self._pos = 0
        self._seekable = seekable
        self.markedPosition = 0
        self.reads = 0
        self.nones = 0
        self.last_read_short = False
        self.eof_reads = 0
        self._update_closed()

    def _update_closed(self):
        if self._idx >= len(self._cuts) - 1 and self._avail >= self._total and self._eof_with_last:
            self._closed = True

    def advance(self):
        """One more arrival event.  Returns False when there is nothing more to happen."""
        if self._idx < len(self._cuts) - 1:
            self._idx += 1
            self._avail = self._cuts[self._idx]
            self._update_closed()
            return True
        if self._avail < self._total:
            self._avail = self._total
            self._update_closed()
            return True
        if not self._closed:
            self._closed = True
            return True
        return False

    @property
    def available(self):
        return self._avail

    @property
    def closed_by_writer(self):
        return self._closed

    def seekable(self):
        return self._seekable

    def readable(self):
        return True

    def tell(self):
        if not self._seekable:
            raise io.UnsupportedOperation("tell")
        return self._pos

    def seek(self, n=0, whence=os.SEEK_SET):
        if not self._seekable:
            raise io.UnsupportedOperation("seek")
        if whence == os.SEEK_SET:
            p = n
        elif whence == os.SEEK_CUR:
            p = self._pos + n
        else:
            p = self._avail + n
        if p < 0:
            raise ValueError("negative seek position")
        self._pos = p
        return p

    def read(self, n=-1):
        self.reads += 1
        self.last_read_short = False
        if self._pos >= self._avail:
            if self._closed:
                self.eof_reads += 1
                return b""
            self.nones += 1
            return None
        if n is None or n < 0:
            end = self._avail
        else:
            end = self._pos + n
            if end > self._avail:
                end = self._avail
                self.last_read_short = True
        r = self._data[self._pos:end]
        self._pos = end
        return r

    @property
    def position(self):
        return self._pos


class BytesIOArrival(io.BytesIO):
    """io.BytesIO subclass whose read() consults an arrival schedule (content concrete)."""

    def __init__(self, data, cuts, eof_with_last=True):
        io.BytesIO.__init__(self, data)
        self._sched = ArrivalStream(data, cuts, eof_with_last)

    def advance(self):
        return self._sched.advance()

    @property
    def available(self):
        return self._sched.available


def substrate(data):
    """What to hand to pyasn1's decode(): a SymStream while exploring, real bytes in replay."""
    if SYMBOLIC:
        return SymStream(data)
    return bytes(data)


def rest_of(sub_or_rest):
    """Normalise the remainder returned by decode() to bytes-like."""
    return sub_or_rest
