"""Symbolic worker: explores one shard of one obligation and prints a JSON result line."""
import importlib
import json
import os
import sys
import time


def main(argv):
    modname, obl_id, tier, shard = argv[0], argv[1], argv[2], argv[3]
    excludes = json.loads(argv[4]) if len(argv) > 4 else []
    scale = float(os.environ.get("VERIF_BUDGET_SCALE", "1"))
    shard_i = None if shard == "-" else int(shard)
    t0 = time.time()
    from vfw import engine, streams  # imports crosshair + plugin

    streams.SYMBOLIC = True
    mod = importlib.import_module(modname)
    obl = [o for o in mod.OBLIGATIONS if o.id == obl_id][0]
    params = obl.ranges(tier, shard_i)
    budget = (obl.thorough_budget if tier == "thorough" else obl.budget) * scale

    assume = None
    if excludes:
        codes = [compile(e, "<exclude>", "eval") for e in excludes]

        from vfw.findings_lib import HELPERS

        def assume(**a):
            for c in codes:
                if eval(c, dict(HELPERS, ARGS=dict(a)), dict(a)):
                    return False
            return True

    r = engine.explore(obl.fn, params, assume=assume, budget_s=budget, per_path_s=obl.per_path)
    out = dict(r.__dict__)
    out.update(module=modname, obligation=obl_id, tier=tier, shard=shard_i,
               params={k: list(v) for k, v in params.items()}, import_s=round(time.time() - t0 - r.wall_s, 2))
    sys.stdout.write("\nRESULT " + json.dumps(out, default=repr) + "\n")
    sys.stdout.flush()


if __name__ == "__main__":
    main(sys.argv[1:])
