"""Concrete replay on plain CPython: no CrossHair, real io.BytesIO, real builtins.

usage: python -m vfw.replay <module> <obligation> <json list of arg dicts | @file>
prints one JSON line: [{"args":..., "outcome": "ok"|"skip"|"fail", "detail": ...}, ...]
"""
import importlib
import json
import os
import signal
import sys
import traceback


class _Hang(BaseException):
    pass


def _alarm(signum, frame):
    raise _Hang()


LIMIT = float(os.environ.get("VERIF_REPLAY_LIMIT", "30"))


def run_one(fn, args):
    from vfw.obl import Skip

    signal.signal(signal.SIGALRM, _alarm)
    signal.setitimer(signal.ITIMER_REAL, LIMIT)
    try:
        ret = fn(**args)
    except _Hang:
        return "fail", "did not terminate within %.0f s on plain CPython" % LIMIT
    except Skip:
        return "skip", None
    except Exception as e:  # noqa: BLE001
        tb = traceback.extract_tb(e.__traceback__)
        where = "%s:%d" % (tb[-1].filename, tb[-1].lineno) if tb else "?"
        return "fail", "exception %s: %s at %s" % (type(e).__name__, str(e)[:200], where)
    finally:
        signal.setitimer(signal.ITIMER_REAL, 0)
    if ret is None or ret is True:
        return "ok", None
    if not ret:
        return "ok", None
    return "fail", "assertion: %s" % (ret,)


def main(argv):
    assert "crosshair" not in sys.modules
    modname, obl_id, payload = argv[0], argv[1], argv[2]
    if payload.startswith("@"):
        payload = open(payload[1:]).read()
    arglist = json.loads(payload)
    mod = importlib.import_module(modname)
    obl = [o for o in mod.OBLIGATIONS if o.id == obl_id][0]
    out = []
    profile = "--profile" in argv
    funcs = set()

    def prof(frame, event, arg):
        if event == "call":
            fn = frame.f_code.co_filename
            i = fn.find("/pyasn1/")
            if i >= 0:
                funcs.add(fn[i + 1:] + ":" + getattr(frame.f_code, "co_qualname", frame.f_code.co_name))

    for args in arglist:
        if profile:
            sys.setprofile(prof)
        try:
            outcome, detail = run_one(obl.fn, args)
        finally:
            sys.setprofile(None)
        out.append({"args": args, "outcome": outcome, "detail": detail})
    if profile:
        sys.stdout.write("\nFUNCS " + json.dumps(sorted(funcs)) + "\n")
    assert "crosshair" not in sys.modules
    sys.stdout.write("\nREPLAY " + json.dumps(out) + "\n")


if __name__ == "__main__":
    main(sys.argv[1:])
