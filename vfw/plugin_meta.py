"""Assumptions common to every check (importable without CrossHair)."""
ASSUMPTIONS = [
    "trusted base: CPython 3.12, z3 5.1, CrossHair 0.0.110 tracer/path tree/builtin models, vfw/plugin.py model extensions (self-tested)",
    "stub: text of exception objects (str/repr of exceptions) abstracted to a placeholder; pyasn1 never branches on message text",
    "stub: '%s'/'%r' of non-string objects in '%' formatting abstracted (diagnostics only); numeric directives are exact",
    "stub: pure-Python stream doubles (vfw/streams.py) stand in for io.BytesIO while exploring; concrete replay uses real bytes/io.BytesIO",
    "claim is bounded: holds for every value inside the ranges listed per obligation; nothing is claimed outside them",
    "a violation is reported only after the solver's model reproduces on plain CPython against the unmodified /repo code",
]
