"""Model extensions for CrossHair 0.0.110 so that pyasn1's octet-level code stays symbolic.

Import order: ``crosshair.core_and_libs`` first, then this module, then harness modules.

Every extension is an exact semantic equivalence with the CPython builtin on the operand
kinds it accepts (validated by ``vfw.selftest``), except the *diagnostic stubs*
(text of exception objects, ``%s``/``%r`` of non-string objects in ``%`` formatting), which
abstract message text that pyasn1 never branches on.  See DESIGN.md section 3.2.
"""
import operator as ops
import re

import z3  # type: ignore

import crosshair.core_and_libs  # noqa: F401  (must be first)
import crosshair.core as core
from crosshair import tracers
from crosshair.libimpl import builtinslib as bl
from crosshair.statespace import context_statespace
from crosshair.tracers import NoTracing, ResumedTracing, is_tracing

STUBS = [
    "text of exception objects (str/repr of BaseException instances) is a constant placeholder",
    "'%s'/'%r' of a non-string object inside '%' formatting yields a placeholder (diagnostic text only)",
    "CrossHair short-circuiting of contracted helpers disabled (every call interpreted)",
]

# ----------------------------------------------------------------------------------------
# ord(): element 0 of a one-byte symbolic bytes object, symbolically
# ----------------------------------------------------------------------------------------


def _ord(c):
    with NoTracing():
        if type(c) in (bytes, str, bytearray):
            return ord(c)
        symbytes = isinstance(c, bl.SymbolicBytes) or isinstance(
            c, getattr(bl, "SymbolicByteArray", ())
        )
    if symbytes:
        if len(c) != 1:
            raise TypeError("ord() expected a character")
        return c[0]
    with NoTracing():
        if isinstance(c, bl.LazyIntSymbolicStr) and len(c._codepoints) == 1:
            return c._codepoints[0]
    return ord(core.realize(c))


core._PATCH_REGISTRATIONS[ord] = _ord

# ----------------------------------------------------------------------------------------
# int(x) / bytes(x) for user objects: call the dunder, let a symbolic result through
# ----------------------------------------------------------------------------------------

_old_int = bl._int
_old_bytes = bl._bytes


def _is_user_obj(val, dunder):
    return (
        not isinstance(val, bl.CrossHairValue)
        and not isinstance(val, (int, float, str, bytes, bytearray, memoryview))
        and hasattr(type(val), dunder)
    )


def _int(val=0, *a, **kw):
    with NoTracing():
        user = not a and not kw and _is_user_obj(val, "__int__")
    if user:
        r = type(val).__int__(val)
        with NoTracing():
            if isinstance(r, bl.SymbolicInt):
                return r
        return _old_int(r)
    return _old_int(val, *a, **kw)


def _bytes(*a):
    with NoTracing():
        user = len(a) == 1 and _is_user_obj(a[0], "__bytes__")
    if user:
        r = type(a[0]).__bytes__(a[0])
        with NoTracing():
            if isinstance(r, (bl.SymbolicBytes, bytes)):
                return r
        return _old_bytes(r)
    return _old_bytes(*a)


core._PATCH_REGISTRATIONS[int] = _int
core._PATCH_REGISTRATIONS[bytes] = _bytes

_orig_add = tracers.PatchingModule.add


def _add(self, overrides):
    _orig_add(self, overrides)
    if overrides.get(int) is _int:
        self.nextfn[(_old_int.__code__, int)] = int
    if overrides.get(bytes) is _bytes:
        self.nextfn[(_old_bytes.__code__, bytes)] = bytes


tracers.PatchingModule.add = _add

# ----------------------------------------------------------------------------------------
# a & c, a | c, a ^ c (constant c >= 0); x | y both symbolic when provably disjoint
# ----------------------------------------------------------------------------------------


def bit_runs(c):
    """Maximal runs of set bits of c >= 0 as (lo, width)."""
    i = 0
    out = []
    while c >> i:
        if (c >> i) & 1:
            lo = i
            while (c >> i) & 1:
                i += 1
            out.append((lo, i - lo))
        else:
            i += 1
    return out


def and_const(a, c):
    """a & c for any Python int a and constant c >= 0, using only // and %."""
    total = 0
    for lo, k in bit_runs(c):
        total = total + ((a // (1 << lo)) % (1 << k)) * (1 << lo)
    return total


def or_const(a, c):
    return a + c - and_const(a, c)


def xor_const(a, c):
    return a + c - 2 * and_const(a, c)


def _entails(space, e):
    return not space.is_possible(z3.Not(e))


def _and_handler(op, a, b):
    with NoTracing():
        if isinstance(b, bl.SymbolicInt) and not isinstance(a, bl.SymbolicInt):
            a, b = b, a
        both = isinstance(a, bl.SymbolicInt) and isinstance(b, bl.SymbolicInt)
        if not both and isinstance(a, bl.SymbolicInt):
            c = b.__index__() if not isinstance(b, bool) else int(b)
            if c >= 0:
                if c == 0:
                    return 0
                expr = None
                for lo, k in bit_runs(c):
                    term = ((a.var / (1 << lo)) % (1 << k)) * (1 << lo)
                    expr = term if expr is None else expr + term
                # z3 Int '/' is floor division for positive divisors, '%' is non-negative: matches
                # Python's floor semantics, i.e. two's complement bits for negative ints.
                return bl.SymbolicInt(expr)
    return ops.and_(core.realize(a), core.realize(b))


def _or_xor_handler(op, a, b):
    with NoTracing():
        if isinstance(b, bl.SymbolicInt) and not isinstance(a, bl.SymbolicInt):
            a, b = b, a
        asym = isinstance(a, bl.SymbolicInt)
        bsym = isinstance(b, bl.SymbolicInt)
        if asym and not bsym:
            c = int(b)
            if c >= 0:
                if c == 0:
                    return a
                expr = None
                for lo, k in bit_runs(c):
                    term = ((a.var / (1 << lo)) % (1 << k)) * (1 << lo)
                    expr = term if expr is None else expr + term
                if op is ops.or_:
                    return bl.SymbolicInt(a.var + c - expr)
                else:
                    return bl.SymbolicInt(a.var + c - 2 * expr)
        if asym and bsym and op is ops.or_:
            space = context_statespace()
            for u, v in ((a, b), (b, a)):
                for k in (7, 8):
                    m = 1 << k
                    if _entails(space, z3.And(v.var >= 0, v.var < m, u.var % m == 0)):
                        return bl.SymbolicInt(u.var + v.var)
    return op(core.realize(a), core.realize(b))


bl._BIN_OPS_SEARCH_ORDER.append((ops.and_, bl.Integral, bl.Integral, _and_handler))
bl._BIN_OPS_SEARCH_ORDER.append((ops.or_, bl.Integral, bl.Integral, _or_xor_handler))
bl._BIN_OPS_SEARCH_ORDER.append((ops.xor, bl.Integral, bl.Integral, _or_xor_handler))
bl._BIN_OPS.clear()

# ----------------------------------------------------------------------------------------
# hash(): always computed and realised (never an uninterpreted symbolic)
# ----------------------------------------------------------------------------------------


def _hash(obj):
    with NoTracing():
        if type(obj) in (int, str, bytes, tuple, frozenset, type(None), bool, float):
            try:
                return hash(obj)
            except TypeError:
                pass
    r = bl.invoke_dunder(obj, "__hash__")
    if r is bl._MISSING:
        with NoTracing():
            return hash(obj)
    return core.realize(r)


core._PATCH_REGISTRATIONS[hash] = _hash

# interpret every call (no uninterpreted short-circuit of contracted helpers)
core.consider_shortcircuit = lambda *a, **k: None

# ----------------------------------------------------------------------------------------
# repr()/str() of exception objects: placeholder text
# ----------------------------------------------------------------------------------------

_old_repr = bl._repr
_old_str = bl._str

EXC_TEXT = "<exc>"
OPAQUE = "<?>"


def _repr(obj):
    with NoTracing():
        if isinstance(obj, BaseException):
            return EXC_TEXT
    try:
        r = bl.invoke_dunder(obj, "__repr__")
    except TypeError as e:
        with NoTracing():
            if "__repr__ returned non-string" in str(e):
                return OPAQUE
        raise
    return r


def _str(*a):
    with NoTracing():
        if len(a) == 1 and isinstance(a[0], BaseException):
            return EXC_TEXT
    try:
        return _old_str(*a)
    except TypeError as e:
        # C-level containers (tuple/list/dict) rendering embedded symbolics: diagnostic text only
        with NoTracing():
            if "returned non-string" in str(e):
                return OPAQUE
        raise


core._PATCH_REGISTRATIONS[repr] = _repr
core._PATCH_REGISTRATIONS[str] = _str


def _add2(self, overrides, _prev=tracers.PatchingModule.add):
    _prev(self, overrides)
    if overrides.get(str) is _str:
        self.nextfn[(_old_str.__code__, str)] = str


tracers.PatchingModule.add = _add2

# ----------------------------------------------------------------------------------------
# '%' formatting
# ----------------------------------------------------------------------------------------

_DIRECTIVE = re.compile(r"%(?:\((\w+)\))?([-+ #0]*)(\d+|\*)?(?:\.(\d+))?([diouxXeEfFgGcrsa%])")


def _fmt_int(v, flags, width, prec, conv):
    """Render an int (possibly symbolic) like the C formatter for d/i/x/X with optional precision/width."""
    neg = v < 0
    mag = -v if neg else v
    if conv in "di":
        digits = str(mag)
    else:
        # hex of symbolic ints: realise (not used by pyasn1 on semantic paths)
        with NoTracing():
            pass
        digits = format(core.realize(mag), conv)
    if prec is not None:
        while len(digits) < prec:
            digits = "0" + digits
    sign = "-" if neg else ("+" if "+" in flags else (" " if " " in flags else ""))
    body = sign + digits
    if width is not None and len(body) < width:
        pad = width - len(body)
        if "-" in flags:
            body = body + " " * pad
        elif "0" in flags and prec is None:
            body = sign + "0" * pad + digits
        else:
            body = " " * pad + body
    return body


def percent_format(fmt, args):
    with NoTracing():
        fmt_concrete = type(fmt) is str
    if not fmt_concrete:
        return core.realize(fmt).__mod__(core.deep_realize(args))
    with NoTracing():
        is_map = isinstance(args, dict)
        if not isinstance(args, tuple) and not is_map:
            args = (args,)
        pieces = []
        pos = 0
        argi = 0
        plan = []
        for m in _DIRECTIVE.finditer(fmt):
            plan.append((fmt[pos : m.start()], m))
            pos = m.end()
        tail = fmt[pos:]
    out = ""
    for lit, m in plan:
        out = out + lit
        key, flags, width, prec, conv = m.groups()
        if conv == "%":
            out = out + "%"
            continue
        with NoTracing():
            if width == "*":
                raise NotImplementedError("'*' width")
            width_i = int(width) if width else None
            prec_i = int(prec) if prec is not None else None
            if key is not None:
                arg = args[key]
            else:
                if argi >= len(args):
                    raise TypeError("not enough arguments for format string")
                arg = args[argi]
                argi += 1
            concrete = type(arg) in (int, str, float, bool, bytes, type(None))
            symint = isinstance(arg, bl.SymbolicInt)
            symstr = isinstance(arg, bl.AnySymbolicStr)
            isbool = isinstance(arg, bl.SymbolicBool)
        if concrete:
            with NoTracing():
                out = out + (m.group(0).replace("(%s)" % key, "") if key else m.group(0)) % (arg,)
            continue
        if conv in "dixX" and (symint or isbool):
            v = arg if symint else (1 if arg else 0)
            out = out + _fmt_int(v, flags, width_i, prec_i, conv)
            continue
        if conv == "s" and symstr and width_i is None and prec_i is None:
            out = out + arg
            continue
        if conv in "di":
            # user objects with __int__/__index__
            try:
                v = arg.__index__()
            except AttributeError:
                v = int(arg)
            out = out + _fmt_int(v, flags, width_i, prec_i, conv)
            continue
        # diagnostics: do not touch the argument
        out = out + OPAQUE
    with NoTracing():
        if not is_map and argi < len(args):
            raise TypeError("not all arguments converted during string formatting")
    return out + tail


def _str_percent_format(self, other):
    if not isinstance(self, str):
        raise TypeError
    return percent_format(self, other)


core._PATCH_REGISTRATIONS[str.__mod__] = _str_percent_format


def install():
    """Idempotent: everything is installed at import."""
    return True


# ----------------------------------------------------------------------------------------
# `not x` for symbolic containers without __bool__ (e.g. `not received` on symbolic bytes):
# CrossHair's NotInterceptor calls value.__bool__() unconditionally; fall back to len() != 0.
# ----------------------------------------------------------------------------------------
from crosshair import opcode_intercept as _oi


def _stash_bool(self):
    v = self.value
    with NoTracing():
        has_bool = hasattr(type(v), "__bool__")
    if has_bool:
        stashed_bool = v.__bool__()
    else:
        stashed_bool = v.__len__() != 0
    with NoTracing():
        if self.negate:
            if isinstance(stashed_bool, bl.SymbolicBool):
                self.stashed_bool = bl.SymbolicBool(z3.Not(stashed_bool.var))
            else:
                self.stashed_bool = not stashed_bool
        else:
            self.stashed_bool = stashed_bool
    return True


_oi.BoolStashingValue.__bool__ = _stash_bool


# ----------------------------------------------------------------------------------------
# bytes.ljust / bytes.rjust on symbolic bytes (used by the CER SET OF sort): pad symbolically
# ----------------------------------------------------------------------------------------


def _sym_ljust(self, width, fillbyte=b" "):
    n = len(self)
    if width <= n:
        return self
    return self + fillbyte * (width - n)


def _sym_rjust(self, width, fillbyte=b" "):
    n = len(self)
    if width <= n:
        return self
    return fillbyte * (width - n) + self


bl.BytesLike.ljust = _sym_ljust
bl.BytesLike.rjust = _sym_rjust


# ----------------------------------------------------------------------------------------
# symbolic_bytes + <user object defining __radd__> must give the reflected method a chance
# (CrossHair raises TypeError instead of returning NotImplemented; real bytes return NotImplemented)
# ----------------------------------------------------------------------------------------
_orig_symbytes_add = bl.SymbolicBytes.__add__


def _symbytes_add(self, other):
    with NoTracing():
        foreign = (not isinstance(other, (bytes, bytearray, memoryview, bl.CrossHairValue))
                   and hasattr(type(other), "__radd__") and not isinstance(other, (list, tuple, int, str)))
    if foreign:
        return NotImplemented
    return _orig_symbytes_add(self, other)


bl.SymbolicBytes.__add__ = _symbytes_add
