"""Helper predicates usable inside `match` expressions of known_findings.json (symbolic-friendly)."""


def _walk(t):
    yield t
    for c in t.comps:
        for x in _walk(c[1]):
            yield x
    if t.elem is not None:
        for x in _walk(t.elem):
            yield x


# kinds whose BER encoder class declares supportIndefLenMode = False
NO_INDEF_KINDS = ("BOOL", "INT", "ENUM", "NULL", "OID", "REAL")


def has_expl_leaf(sid):
    """Schema `sid` contains an EXPLICIT tag applied to a type with a primitive encoding."""
    from vfw.catalogue import by_id

    for t in _walk(by_id(sid).t):
        if t.kind not in NO_INDEF_KINDS:
            continue
        if any(m == "E" for (m, _c, _n) in t.tags):
            return True
    return False


def has_kind(sid, *kinds):
    from vfw.catalogue import by_id

    return any(t.kind in kinds for t in _walk(by_id(sid).t))


def _value_has_expl_leaf(t, av):
    from vfw.schema import same

    k = t.kind
    if k in ("SEQ", "SET"):
        for (name, ct, mode, dflt) in t.comps:
            if name not in av:
                continue
            if mode == "def" and same(ct, av[name], dflt):
                continue
            if _value_has_expl_leaf(ct, av[name]):
                return True
        return False
    if k in ("SEQOF", "SETOF"):
        for x in av:
            if _value_has_expl_leaf(t.elem, x):
                return True
        return False
    if k == "CHOICE":
        name, inner = av
        ct = [c for c in t.comps if c[0] == name][0][1]
        return _value_has_expl_leaf(ct, inner)
    if k not in NO_INDEF_KINDS:
        return False
    return any(m == "E" for (m, _c, _n) in t.tags)


def stray_eoo(sid, args):
    """The value built from `args` for catalogue schema `sid` contains (and actually encodes) a primitive
    type under an EXPLICIT tag - the shape hit by finding F-stray-eoo in indefinite-length mode."""
    from vfw.catalogue import by_id

    if not has_expl_leaf(sid):
        return False
    e = by_id(sid)
    slots = dict((k, v) for k, v in args.items() if k in e.params)
    return _value_has_expl_leaf(e.t, e.mk(**slots))


def _encodes_empty(t, av):
    from vfw.schema import norm

    if t.kind in ("SEQOF", "SETOF"):
        return len(av) == 0
    if t.kind in ("SEQ", "SET"):
        return len(norm(t, av)) == 0
    return False


def _value_has_empty_optional(t, av):
    k = t.kind
    if k in ("SEQ", "SET"):
        for (name, ct, mode, dflt) in t.comps:
            if name not in av:
                continue
            if mode == "opt" and _encodes_empty(ct, av[name]):
                return True
            if _value_has_empty_optional(ct, av[name]):
                return True
        return False
    if k in ("SEQOF", "SETOF"):
        for x in av:
            if _value_has_empty_optional(t.elem, x):
                return True
        return False
    if k == "CHOICE":
        name, inner = av
        ct = [c for c in t.comps if c[0] == name][0][1]
        return _value_has_empty_optional(ct, inner)
    return False


def empty_optional(sid, args):
    """The value built from `args` for schema `sid` holds an OPTIONAL SEQUENCE/SET/SEQUENCE OF/SET OF member that is
    present but has empty contents - the shape hit by finding F-empty-optional-omitted in CER/DER."""
    from vfw.catalogue import by_id

    e = by_id(sid)
    if not any(c[2] == "opt" and c[1].kind in ("SEQ", "SET", "SEQOF", "SETOF") for t in _walk(e.t) for c in t.comps):
        return False
    slots = dict((k, v) for k, v in args.items() if k in e.params)
    return _value_has_empty_optional(e.t, e.mk(**slots))


def interior_zero(flen, *digits):
    """Some '0' among the first flen fraction digits is followed, within them, by a non-zero digit."""
    seen_zero = False
    for i, d in enumerate(digits):
        if i >= flen:
            break
        if d == 0:
            seen_zero = True
        elif seen_zero:
            return True
    return False


HELPERS = {"interior_zero": interior_zero, "empty_optional": empty_optional, "stray_eoo": stray_eoo, "has_expl_leaf": has_expl_leaf, "has_kind": has_kind}
