"""Helper predicates usable inside `match` expressions of known_findings.json (symbolic-friendly)."""


def _walk(t):
    yield t
    for c in t.comps:
        for x in _walk(c[1]):
            yield x
    if t.elem is not None:
        for x in _walk(t.elem):
            yield x


def has_expl_leaf(sid):
    """Schema `sid` contains an EXPLICIT tag applied to a type with a primitive encoding."""
    from vfw.catalogue import by_id

    for t in _walk(by_id(sid).t):
        if t.kind in ("SEQ", "SET", "SEQOF", "SETOF", "CHOICE", "ANY"):
            continue
        if any(m == "E" for (m, _c, _n) in t.tags):
            return True
    return False


def has_kind(sid, *kinds):
    from vfw.catalogue import by_id

    return any(t.kind in kinds for t in _walk(by_id(sid).t))


HELPERS = {"has_expl_leaf": has_expl_leaf, "has_kind": has_kind}
