"""Obligation descriptions shared by the symbolic worker and the concrete replayer.

This module must import without CrossHair (the replayer runs on plain CPython).
"""
from dataclasses import dataclass, field
from typing import Any, Callable, Dict, List, Optional, Tuple


class Skip(Exception):
    """Raised by a harness when the drawn inputs are outside the obligation's precondition."""


def I(lo, hi):
    return ("int", lo, hi)


B = ("bool",)
BYTE = ("int", 0, 255)


def C(v):
    return ("const", v)


@dataclass
class Obl:
    id: str
    fn: Callable
    params: Dict[str, Tuple]  # quick-tier ranges
    thorough: Dict[str, Tuple] = field(default_factory=dict)  # overrides for thorough
    # shards: list of dicts param -> spec overriding the range (each shard explored exhaustively)
    shards: Optional[List[Dict[str, Tuple]]] = None
    thorough_shards: Optional[List[Dict[str, Tuple]]] = None
    budget: float = 60.0  # CPU seconds per shard, quick
    thorough_budget: float = 240.0
    per_path: float = 20.0
    tiers: Tuple[str, ...] = ("quick", "thorough")
    doc: str = ""
    symbolic: Tuple[str, ...] = ()  # names of dimensions kept symbolic (documentation)
    enumerated: Tuple[str, ...] = ()  # names of dimensions that are forked per value

    def ranges(self, tier: str, shard: Optional[int]) -> Dict[str, Tuple]:
        p = dict(self.params)
        if tier == "thorough":
            p.update(self.thorough)
        sh = self.shard_list(tier)
        if shard is not None and sh:
            p.update(sh[shard])
        return p

    def shard_list(self, tier: str):
        if tier == "thorough" and self.thorough_shards is not None:
            return self.thorough_shards
        return self.shards

    def nshards(self, tier: str) -> int:
        sh = self.shard_list(tier)
        return len(sh) if sh else 1


def split_range(name, lo, hi, n):
    """n shards covering [lo, hi] for parameter `name`."""
    total = hi - lo + 1
    n = max(1, min(n, total))
    out = []
    step, extra = divmod(total, n)
    cur = lo
    for i in range(n):
        size = step + (1 if i < extra else 0)
        out.append({name: ("int", cur, cur + size - 1)})
        cur += size
    return out


def product_shards(*lists):
    out = [{}]
    for l in lists:
        out = [dict(a, **b) for a in out for b in l]
    return out


def bools(name):
    return [{name: ("const", False)}, {name: ("const", True)}]


def values(name, vals):
    return [{name: ("const", v)} for v in vals]
