"""Run the obligations of one property, replay what the solver found, write evidence.

usage: python -m vfw.main C01 [--tier quick|thorough] [--only OBL] [--replay FILE] [--jobs N]
exit 0: no violation among everything explored (inconclusive obligations are reported, not hidden)
exit 1: at least one `VIOLATION property=<id> replay=<path>` line was printed
"""
import argparse
import concurrent.futures as cf
import hashlib
import importlib
import json
import os
import random
import subprocess
import sys
import time

ROOT = os.path.dirname(os.path.dirname(os.path.abspath(__file__)))
PY = sys.executable
FINDINGS_FILE = os.path.join(ROOT, "known_findings.json")
MAX_BLOCK_ROUNDS = 6


def _env():
    env = dict(os.environ)
    env["PYTHONPATH"] = ROOT + os.pathsep + env.get("PYTHONPATH", "")
    env["PYTHONHASHSEED"] = "0"
    env.setdefault("PYTHONDONTWRITEBYTECODE", "1")
    return env


def run_worker(modname, obl, tier, shard, excludes, hard_timeout):
    cmd = [PY, "-m", "vfw.worker", modname, obl.id, tier, "-" if shard is None else str(shard), json.dumps(excludes)]
    t0 = time.time()
    try:
        p = subprocess.run(cmd, cwd=ROOT, env=_env(), capture_output=True, text=True, timeout=hard_timeout)
    except subprocess.TimeoutExpired:
        return {"status": "INCONCLUSIVE", "reason": "hard timeout %ds" % hard_timeout, "paths": 0, "confirmed_paths": 0,
                "unknown_paths": 0, "decisions": 0, "witnesses": [], "queries": 0, "solver_s": 0.0,
                "wall_s": time.time() - t0, "obligation": obl.id, "shard": shard, "counterexample": None, "failure": None}
    for line in p.stdout.splitlines():
        if line.startswith("RESULT "):
            return json.loads(line[7:])
    return {"status": "INCONCLUSIVE", "reason": "worker crashed: " + (p.stderr.strip().splitlines() or ["?"])[-1][:300],
            "paths": 0, "confirmed_paths": 0, "unknown_paths": 0, "decisions": 0, "witnesses": [], "queries": 0,
            "solver_s": 0.0, "wall_s": time.time() - t0, "obligation": obl.id, "shard": shard, "counterexample": None,
            "failure": None, "stderr": p.stderr[-2000:]}


def run_replay(modname, obl_id, arglist, profile=False, timeout=300):
    """Concrete replay in a fresh plain-CPython process."""
    if not arglist:
        return [], []
    payload = json.dumps(arglist)
    cmd = [PY, "-m", "vfw.replay", modname, obl_id, payload] + (["--profile"] if profile else [])
    try:
        p = subprocess.run(cmd, cwd=ROOT, env=_env(), capture_output=True, text=True, timeout=timeout)
    except subprocess.TimeoutExpired:
        return [{"args": a, "outcome": "error", "detail": "replay timeout"} for a in arglist], []
    res, funcs = None, []
    for line in p.stdout.splitlines():
        if line.startswith("REPLAY "):
            res = json.loads(line[7:])
        if line.startswith("FUNCS "):
            funcs = json.loads(line[6:])
    if res is None:
        return [{"args": a, "outcome": "error", "detail": "replayer crashed: " + p.stderr[-300:]} for a in arglist], []
    return res, funcs


def load_findings(prop):
    try:
        data = json.load(open(FINDINGS_FILE))
    except FileNotFoundError:
        return []
    return [f for f in data.get("findings", []) if f.get("property") == prop]


def match_finding(findings, obl_id, args):
    for f in findings:
        obls = f.get("obligations") or [f.get("obligation")]
        import fnmatch
        if not any(fnmatch.fnmatchcase(obl_id, pat) for pat in obls):
            continue
        try:
            from vfw.findings_lib import HELPERS
            if eval(f["match"], dict(HELPERS, ARGS=dict(args)), dict(args)):
                return f
        except Exception:
            continue
    return None


def write_replay_file(prop, modname, obl_id, args, detail):
    d = os.path.join(ROOT, "replays", prop)
    os.makedirs(d, exist_ok=True)
    h = hashlib.sha1(json.dumps(args, sort_keys=True).encode()).hexdigest()[:10]
    path = os.path.join(d, "%s-%s.json" % (obl_id, h))
    json.dump({"property": prop, "module": modname, "obligation": obl_id, "args": args, "failure": detail,
               "how": "python -m vfw.main %s --replay %s" % (prop, path)}, open(path, "w"), indent=1)
    return path


def do_replay_file(prop, path):
    rec = json.load(open(path))
    res, _ = run_replay(rec["module"], rec["obligation"], [rec["args"]])
    r = res[0]
    print("replay %s/%s args=%s -> %s %s" % (rec["module"], rec["obligation"], rec["args"], r["outcome"], r.get("detail") or ""))
    if r["outcome"] == "fail":
        print("VIOLATION property=%s replay=%s" % (prop, path))
        return 1
    return 0


def main():
    ap = argparse.ArgumentParser()
    ap.add_argument("prop")
    ap.add_argument("--tier", default=os.environ.get("VERIF_TIER", "quick"))
    ap.add_argument("--only", default=None)
    ap.add_argument("--replay", default=None)
    ap.add_argument("--jobs", type=int, default=int(os.environ.get("VERIF_JOBS", "16")))
    ap.add_argument("--no-evidence", action="store_true")
    ap.add_argument("--fail-fast", action="store_true", help="stop scheduling obligations after the first violation (sensitivity runs)")
    a = ap.parse_args()
    prop, tier = a.prop, a.tier
    if tier not in ("quick", "thorough"):
        tier = "quick"
    if a.replay:
        sys.exit(do_replay_file(prop, a.replay))
    seed = int(os.environ.get("VERIF_SEED", "0") or 0)
    t_start = time.time()
    modname = "props." + prop
    sys.path.insert(0, ROOT)
    mod = importlib.import_module(modname)
    findings = load_findings(prop)
    obls = [o for o in mod.OBLIGATIONS if tier in o.tiers and (a.only is None or o.id in a.only.split(","))]

    jobs = []
    for o in obls:
        n = o.nshards(tier)
        for s in range(n):
            jobs.append((o, s if o.shard_list(tier) else None))
    random.Random(seed).shuffle(jobs)
    # long budgets first
    jobs.sort(key=lambda j: -(j[0].thorough_budget if tier == "thorough" else j[0].budget))

    scale = float(os.environ.get("VERIF_BUDGET_SCALE", "1"))

    stop = {"flag": False}

    def job(o, shard):
        if stop["flag"]:
            return None
        budget = (o.thorough_budget if tier == "thorough" else o.budget) * scale
        hard = int(budget * 2.5 + 90)
        excludes = []
        known_hit = []
        rounds = []
        violation = None
        disagreements = []
        while True:
            r = run_worker(modname, o, tier, shard, excludes, hard)
            rounds.append(r)
            if r["status"] != "REFUTED":
                break
            cex = r["counterexample"]
            rep, _ = run_replay(modname, o.id, [cex])
            if rep[0]["outcome"] != "fail":
                disagreements.append({"args": cex, "symbolic": r.get("failure"), "concrete": rep[0]})
                r["status"] = "INCONCLUSIVE"
                r["reason"] = "counterexample did not reproduce concretely (engine/stub disagreement)"
                break
            f = match_finding(findings, o.id, cex)
            if f is None or len(excludes) >= MAX_BLOCK_ROUNDS:
                if f is None:
                    violation = {"args": cex, "detail": rep[0]["detail"]}
                else:
                    r["status"] = "INCONCLUSIVE"
                    r["reason"] = "known findings blocked %d times; region not exhausted" % len(excludes)
                break
            known_hit.append({"finding": f["id"], "args": cex, "detail": rep[0]["detail"]})
            excludes.append(f["match"])
        last = rounds[-1]
        # paths the watchdog had to stop: replayed concretely under a wall-clock limit; a concrete hang is a violation
        if violation is None and last.get("hangs"):
            hrep, _ = run_replay(modname, o.id, last["hangs"][:2], timeout=200)
            for h in hrep:
                if h["outcome"] == "fail":
                    f = match_finding(findings, o.id, h["args"])
                    if f is None:
                        violation = {"args": h["args"], "detail": h["detail"], "via": "watchdog + concrete replay"}
                    else:
                        known_hit.append({"finding": f["id"], "args": h["args"], "detail": h["detail"], "via": "watchdog"})
                    break
        # witnesses of all rounds replayed concretely
        wit = []
        for rr in rounds:
            wit.extend(rr.get("witnesses") or [])
        wrep, funcs = run_replay(modname, o.id, wit[:64], profile=True)
        bad = [w for w in wrep if w["outcome"] == "fail"]
        wv = None
        for w in bad:
            f = match_finding(findings, o.id, w["args"])
            if f is None:
                wv = w
                break
            known_hit.append({"finding": f["id"], "args": w["args"], "detail": w["detail"], "via": "witness replay"})
        if violation is None and wv is not None:
            violation = {"args": wv["args"], "detail": wv["detail"], "via": "witness replay"}
        if violation is not None and a.fail_fast:
            stop["flag"] = True
        return dict(obl=o, shard=shard, rounds=rounds, last=last, known_hit=known_hit, violation=violation,
                    disagreements=disagreements, wrep=wrep, funcs=funcs)

    results = []
    with cf.ThreadPoolExecutor(max_workers=max(1, a.jobs)) as ex:
        futs = [ex.submit(job, o, s) for (o, s) in jobs]
        for f in cf.as_completed(futs):
            if f.result() is not None:
                results.append(f.result())

    results.sort(key=lambda r: (r["obl"].id, -1 if r["shard"] is None else r["shard"]))
    n_obl = len(results)
    discharged = 0
    inconclusive = []
    blocked = []
    violations = []
    known_lines = {}
    states = transitions = queries = validated = 0
    solver_s = 0.0
    samples = []
    funcs = set()
    per_obl = []
    # shards in which every path fell outside the harness precondition (Skip) are empty slices of a sharded
    # obligation, not obligations of their own - unless *all* shards of the obligation are empty (then: vacuous)
    def _is_empty(r):
        l = r["last"]
        return (l["status"] == "INCONCLUSIVE" and l.get("confirmed_paths", 0) == 0 and l.get("unknown_paths", 0) == 0
                and l.get("exhausted") and l.get("ignored_paths", 0) == l.get("paths", -1) and not r["known_hit"]
                and r["violation"] is None and not r["disagreements"])

    by_obl = {}
    for r in results:
        by_obl.setdefault(r["obl"].id, []).append(r)
    empty_shards = []
    kept = []
    for oid, rs in by_obl.items():
        nonempty = [r for r in rs if not _is_empty(r)]
        if nonempty and len(rs) > 1:
            for r in rs:
                if _is_empty(r):
                    empty_shards.append({"obligation": oid, "shard": r["shard"]})
            kept.extend(nonempty)
        else:
            kept.extend(rs)
    results = sorted(kept, key=lambda r: (r["obl"].id, -1 if r["shard"] is None else r["shard"]))
    n_obl = len(results)
    for r in results:
        o, last = r["obl"], r["last"]
        for rr in r["rounds"]:
            states += rr.get("paths", 0)
            transitions += rr.get("decisions", 0)
            queries += rr.get("queries", 0)
            solver_s += rr.get("solver_s", 0.0)
        okw = [w for w in r["wrep"] if w["outcome"] == "ok"]
        validated += len(okw)
        funcs.update(r["funcs"])
        for w in okw[:2]:
            samples.append({"obligation": o.id, "shard": r["shard"], "witness": w["args"]})
        for k in r["known_hit"]:
            known_lines.setdefault(k["finding"], k)
        status = last["status"]
        if r["violation"] is not None:
            status = "REFUTED"
            path = write_replay_file(prop, modname, o.id, r["violation"]["args"], r["violation"]["detail"])
            violations.append((o.id, path, r["violation"]))
        elif status == "CONFIRMED":
            if not okw and last.get("witnesses"):
                status = "INCONCLUSIVE"
                last["reason"] = "no witness replayed ok concretely"
            else:
                discharged += 1
        if status == "INCONCLUSIVE" and r["known_hit"] and last.get("confirmed_paths", 0) == 0 and not r["disagreements"]:
            status = "BLOCKED"
            blocked.append({"obligation": o.id, "shard": r["shard"], "findings": sorted(set(k["finding"] for k in r["known_hit"]))})
        if status == "INCONCLUSIVE":
            inconclusive.append({"obligation": o.id, "shard": r["shard"], "reason": last.get("reason"),
                                 "paths": last.get("paths"), "disagreements": r["disagreements"][:2]})
        per_obl.append({"obligation": o.id, "shard": r["shard"], "status": status, "paths": sum(x.get("paths", 0) for x in r["rounds"]),
                        "confirmed_paths": last.get("confirmed_paths"), "queries": sum(x.get("queries", 0) for x in r["rounds"]),
                        "solver_s": round(sum(x.get("solver_s", 0.0) for x in r["rounds"]), 2),
                        "wall_s": round(sum(x.get("wall_s", 0.0) for x in r["rounds"]), 2),
                        "bounds": last.get("params"), "known_findings": [k["finding"] for k in r["known_hit"]],
                        "witnesses_replayed_ok": len(okw), "doc": o.doc})

    for fid, k in sorted(known_lines.items()):
        f = [x for x in findings if x["id"] == fid][0]
        print("KNOWN-FINDING: property=%s %s [%s] e.g. args=%s" % (prop, f["what"], fid, json.dumps(k["args"], sort_keys=True)))
    for oid, path, v in violations:
        print("VIOLATION property=%s replay=%s" % (prop, path))
        print("  obligation=%s args=%s :: %s" % (oid, json.dumps(v["args"], sort_keys=True), v["detail"]))
    wall = time.time() - t_start
    print("%s tier=%s obligations=%d discharged=%d blocked_by_known_finding=%d inconclusive=%d violations=%d known=%d paths=%d queries=%d solver=%.1fs wall=%.1fs"
          % (prop, tier, n_obl, discharged, len(blocked), len(inconclusive), len(violations), len(known_lines), states, queries, solver_s, wall))
    for inc in inconclusive:
        print("  INCONCLUSIVE %s shard=%s: %s" % (inc["obligation"], inc["shard"], inc["reason"]))

    if not a.no_evidence and a.only is None and not a.fail_fast:
        from vfw import plugin_meta
        ev = {
            "property_id": prop,
            "tier": tier,
            "seed": seed,
            "level": "model_checking",
            "coverage": {
                "states": max(states, 0),
                "transitions": max(transitions, 0),
                "traces_validated_against_impl": validated,
                "samples": samples[:40] or [{"note": "no witness"}],
                "obligations": n_obl,
                "discharged": discharged,
                "inconclusive": inconclusive,
                "blocked_by_known_finding": blocked,
                "empty_shards": empty_shards,
                "exhaustive": len(inconclusive) == 0 and not violations,
                "solver_queries": queries,
                "solver_time_s": round(solver_s, 2),
                "evaluations": queries,
                "distinct_nontrivial": states,
                "rule": "one case = one feasible execution path of the harness over pyasn1's real code, closed by z3 "
                        "(unsat on the negation of every branch taken); distinct paths are counted by the path tree",
                "functions_executed": sorted(funcs)[:400],
                "per_obligation": per_obl,
                "known_findings_hit": sorted(known_lines),
                "engine": "CrossHair 0.0.110 state space + z3 (in-process driver vfw/engine.py), model extensions vfw/plugin.py",
                "bounds_note": getattr(mod, "BOUNDS", ""),
                "outside_claim": getattr(mod, "OUTSIDE", ""),
            },
            "assumptions": plugin_meta.ASSUMPTIONS + list(getattr(mod, "ASSUMPTIONS", [])),
            "wall_s": round(wall, 2),
            "violations": len(violations),
        }
        os.makedirs(os.path.join(ROOT, "evidence"), exist_ok=True)
        json.dump(ev, open(os.path.join(ROOT, "evidence", prop + ".json"), "w"), indent=1, default=repr)
    sys.exit(1 if violations else 0)


if __name__ == "__main__":
    main()
