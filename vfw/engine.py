"""Bounded symbolic exploration of a harness function with CrossHair's state space and z3.

A harness is an ordinary Python function of int/bool parameters that runs pyasn1's real code and
returns ``None``/``True`` when the property's assertion holds on that path and a (truthy) string
describing the failure otherwise.  Any exception escaping the harness is a failure as well
(harnesses catch the exceptions the property permits).

``explore`` enumerates the feasible paths of the harness under the parameter ranges (z3 decides
every branch), until the path tree is exhausted (=> the assertion holds for *every* value inside
the ranges), a failing path is found (=> concrete counterexample from the z3 model), or the budget
is spent (=> inconclusive).
"""
import sys
import time
import traceback
from dataclasses import dataclass, field
from typing import Any, Callable, Dict, List, Optional, Tuple

import z3  # type: ignore

import crosshair.core_and_libs  # noqa: F401
from vfw import plugin  # noqa: F401  (after core_and_libs, before harnesses)

import crosshair.core as core
from crosshair import statespace as ss
from crosshair.core import Patched, proxy_for_type, realize
from crosshair.libimpl import builtinslib as bl
from crosshair.statespace import (
    CallAnalysis,
    RootNode,
    StateSpace,
    StateSpaceContext,
    VerificationStatus,
)
from crosshair.tracers import COMPOSITE_TRACER, NoTracing, ResumedTracing
from vfw.obl import Skip
from crosshair.util import (
    CrosshairUnsupported,
    IgnoreAttempt,
    UnexploredPath,
    UnknownSatisfiability,
    PathTimeout,
    NotDeterministic,
)

# ---- solver query accounting -----------------------------------------------------------

STATS = {"queries": 0, "solver_s": 0.0, "unknown": 0}
_orig_is_sat = ss.solver_is_sat


def _timed_is_sat(solver, *exprs):
    t0 = time.perf_counter()
    STATS["queries"] += 1
    try:
        return _orig_is_sat(solver, *exprs)
    except UnknownSatisfiability:
        STATS["unknown"] += 1
        raise
    finally:
        STATS["solver_s"] += time.perf_counter() - t0


ss.solver_is_sat = _timed_is_sat
for _m in list(sys.modules.values()):
    if _m is not None and getattr(_m, "solver_is_sat", None) is _orig_is_sat:
        try:
            setattr(_m, "solver_is_sat", _timed_is_sat)
        except Exception:
            pass


class HarnessHang(BaseException):
    """Raised by the per-path watchdog (SIGALRM) when one path runs far beyond its budget without the engine noticing
    (a loop over concrete data makes no solver decisions, so CrossHair's own path timeout never fires)."""


def _on_alarm(signum, frame):
    raise HarnessHang()


@dataclass
class Result:
    status: str  # CONFIRMED | REFUTED | INCONCLUSIVE
    paths: int = 0
    confirmed_paths: int = 0
    unknown_paths: int = 0
    ignored_paths: int = 0
    decisions: int = 0
    witnesses: List[Dict[str, Any]] = field(default_factory=list)
    counterexample: Optional[Dict[str, Any]] = None
    failure: Optional[str] = None
    reason: Optional[str] = None
    queries: int = 0
    solver_s: float = 0.0
    wall_s: float = 0.0
    exhausted: bool = False
    hangs: List[Dict[str, Any]] = field(default_factory=list)


def _mk_args(params: Dict[str, Tuple], space) -> Tuple[Dict[str, Any], Dict[str, Any]]:
    """params: name -> ('int', lo, hi) | ('bool',).  Returns (args for harness, originals)."""
    args = {}
    for name, spec in params.items():
        if spec[0] == "int":
            # created directly (not via proxy_for_type) to avoid CrossHair's "premature realisation" fork
            v = bl.SymbolicBoundedInt(name + space.uniq(), int, spec[1], spec[2])
        elif spec[0] == "bool":
            v = bl.SymbolicBool(name + space.uniq(), bool)
        elif spec[0] == "const":
            v = spec[1]
        else:
            raise ValueError(spec)
        args[name] = v
    return args


def _model_values(space, args) -> Optional[Dict[str, Any]]:
    """A model of the current path condition for the parameters, without committing to it."""
    solver = space.solver
    try:
        r = solver.check()
    except z3.Z3Exception:
        return None
    if r != z3.sat:
        return None
    m = solver.model()
    out = {}
    for name, v in args.items():
        if isinstance(v, bl.SymbolicInt):
            out[name] = m.eval(v.var, model_completion=True).as_long()
        elif isinstance(v, bl.SymbolicBool):
            out[name] = bool(z3.is_true(m.eval(v.var, model_completion=True)))
        else:
            out[name] = v
    return out


def _realize_args(args) -> Dict[str, Any]:
    out = {}
    for name, v in args.items():
        out[name] = realize(v)
    return out


def explore(
    fn: Callable,
    params: Dict[str, Tuple],
    assume: Optional[Callable] = None,
    budget_s: float = 120.0,
    per_path_s: float = 20.0,
    max_paths: int = 200000,
    max_witnesses: int = 64,
) -> Result:
    """Explore all feasible paths of fn(**params).  `assume(**args)` may return False to discard."""
    t_start = time.perf_counter()
    q0, s0 = STATS["queries"], STATS["solver_s"]
    res = Result(status="INCONCLUSIVE")
    root = RootNode()
    deadline = time.process_time() + budget_s
    exhausted = False
    i = 0
    import signal

    signal.signal(signal.SIGALRM, _on_alarm)
    hang = False
    with Patched():
        for i in range(1, max_paths + 1):
            if hang:
                break
            start = time.process_time()
            if start > deadline:
                res.reason = "budget of %.0fs exhausted after %d paths" % (budget_s, i - 1)
                break
            space = StateSpace(
                execution_deadline=start + per_path_s,
                model_check_timeout=per_path_s / 2,
                search_root=root,
            )
            status: Optional[VerificationStatus] = None
            failure = None
            cex = None
            with StateSpaceContext(space), COMPOSITE_TRACER, NoTracing():
                args = None
                try:
                    args = _mk_args(params, space)
                    ok = True
                    signal.setitimer(signal.ITIMER_REAL, per_path_s * 3 + 5)
                    with ResumedTracing():
                        if assume is not None:
                            if not assume(**args):
                                raise IgnoreAttempt("assumption")
                        try:
                            ret = fn(**args)
                        except (UnexploredPath, IgnoreAttempt, NotDeterministic):
                            raise
                        except Skip:
                            raise IgnoreAttempt("harness precondition")
                        except Exception as e:  # noqa: BLE001 - a harness failure
                            with NoTracing():
                                if isinstance(e, z3.Z3Exception):
                                    raise UnknownSatisfiability
                                if core.suspected_proxy_intolerance_exception(e):
                                    raise CrosshairUnsupported("proxy intolerance: %s" % (type(e).__name__,))
                                tb = traceback.extract_tb(e.__traceback__)
                                where = "%s:%d" % (tb[-1].filename, tb[-1].lineno) if tb else "?"
                                failure = "exception %s at %s" % (type(e).__name__, where)
                            ok = False
                        else:
                            if ret is None or ret is True:
                                ok = True
                            else:
                                okb = not bool(ret)
                                ok = okb
                                if not ok:
                                    with NoTracing():
                                        failure = "assertion: %s" % (core.deep_realize(ret),)
                        if not ok:
                            space.detach_path()
                            cex = _realize_args(args)
                    if ok:
                        status = VerificationStatus.CONFIRMED
                        if len(res.witnesses) < max_witnesses:
                            w = _model_values(space, args)
                            if w is not None:
                                res.witnesses.append(w)
                    else:
                        status = VerificationStatus.REFUTED
                except HarnessHang:
                    signal.setitimer(signal.ITIMER_REAL, 0)
                    hang = True
                    status = VerificationStatus.UNKNOWN
                    res.unknown_paths += 1
                    res.reason = "a path did not terminate within %.0f s of wall time" % (per_path_s * 3 + 5)
                    try:
                        w = _model_values(space, args) if args is not None else None
                    except BaseException:  # noqa: BLE001 - the solver may have been interrupted mid-operation
                        w = None
                    if w is not None:
                        res.hangs.append(w)
                    res.paths += 1
                    break
                except IgnoreAttempt:
                    status = None
                    res.ignored_paths += 1
                except NotDeterministic:
                    status = VerificationStatus.UNKNOWN
                    res.unknown_paths += 1
                    res.reason = "nondeterministic path"
                except UnexploredPath as e:
                    status = VerificationStatus.UNKNOWN
                    res.unknown_paths += 1
                    res.reason = "unexplored path: %s %s" % (type(e).__name__, e)
                finally:
                    signal.setitimer(signal.ITIMER_REAL, 0)
                res.decisions += len(space.choices_made)
                try:
                    _top, exhausted = space.bubble_status(CallAnalysis(status))
                except Exception as e:  # engine bookkeeping problem => inconclusive
                    res.reason = "engine: %s" % (e,)
                    res.unknown_paths += 1
                    break
            res.paths += 1
            if status == VerificationStatus.CONFIRMED:
                res.confirmed_paths += 1
            if status == VerificationStatus.REFUTED:
                res.status = "REFUTED"
                res.counterexample = cex
                res.failure = failure
                break
            if exhausted:
                break
    res.exhausted = exhausted
    if res.status != "REFUTED":
        if exhausted and res.unknown_paths == 0 and res.confirmed_paths > 0:
            res.status = "CONFIRMED"
        else:
            res.status = "INCONCLUSIVE"
            if res.reason is None:
                if res.confirmed_paths == 0:
                    res.reason = "no path reached the end of the harness (vacuous)"
                elif not exhausted:
                    res.reason = "path tree not exhausted"
    res.queries = STATS["queries"] - q0
    res.solver_s = round(STATS["solver_s"] - s0, 3)
    res.wall_s = round(time.perf_counter() - t_start, 3)
    return res
