"""Self-test of the model extensions (vfw/plugin.py) against CPython's builtins.

1. concrete differential: the arithmetic formulas used for & | ^ and '%' formatting equal the
   builtins on boundary + pseudo-random operands (plain CPython);
2. symbolic: for every value in a range, the plugin's symbolic result equals the same formula
   evaluated through CrossHair's stock int model (z3 closes the range), and a deliberately wrong
   claim is refuted (the engine is not vacuous).
Exit code 0 = ok.
"""
import random
import sys


def concrete():
    from vfw.plugin import and_const, or_const, xor_const, percent_format

    rnd = random.Random(12345)
    consts = [0x80, 0x7F, 0xC0, 0x20, 0x1F, 0xE0, 0xFF, 0x01, 0x40, 0x3F, 0x0F, 0xF0, 0x5A, 0xFF00, 0x8000]
    vals = list(range(-300, 600)) + [2 ** k + d for k in (8, 15, 16, 31, 32, 63, 64) for d in (-1, 0, 1)]
    vals += [-v for v in vals] + [rnd.randrange(-2 ** 70, 2 ** 70) for _ in range(2000)]
    n = 0
    for c in consts:
        for a in vals:
            assert and_const(a, c) == a & c, (a, c)
            assert or_const(a, c) == a | c, (a, c)
            assert xor_const(a, c) == a ^ c, (a, c)
            n += 3
    fmts = [("%d", (5,)), ("%.2d%.2d", (3, 45)), ("%.2d%.2d", (12, 5)), (".%d", (7,)), ("field-%d", (12,)),
            ("\x03%dE%s%d", (123, "+", 0)), ("\x03%dE%s%d", (-5, "", -3)), ("%s=%s", ("a", "b")), ("%5d|%-5d|%05d", (42, 42, 42)),
            ("%+d % d", (5, 5)), ("%x %X %.2x", (255, 255, 5)), ("100%%", ()), ("%(a)s-%(b)d", {"a": "x", "b": 3}),
            ("%i", (-17,)), ("%.3d", (-7,)), ("%3d", (-7,)), ("%03d", (-7,))]
    for f, a in fmts:
        assert percent_format(f, a) == f % a, (f, a, percent_format(f, a), f % a)
        n += 1
    return n


def symbolic():
    from vfw import engine
    from vfw.plugin import and_const, or_const

    class Obj(object):
        def __init__(self, v):
            self.v = v

        def __int__(self):
            return self.v

        def __bytes__(self):
            return bytes([self.v % 256])

    def h_bits(a):
        for c in (0x80, 0xC0, 0x20, 0x1F, 0x7F, 0xE0, 0xFF):
            if (a & c) != and_const(a, c):
                return "and %x" % c
            if (a | c) != or_const(a, c):
                return "or %x" % c
        if (a & 0x1F) > 31 or (a & 0x1F) < 0:
            return "range"
        return None

    def h_shift_or(hi, lo):
        x = hi << 7
        x |= lo & 0x7F
        if x != hi * 128 + lo % 128:
            return "shift-or 7"
        y = hi << 8
        y |= lo % 256
        if y != hi * 256 + lo % 256:
            return "shift-or 8"
        return None

    def h_ord(b0, b1):
        data = bytes([b0, b1])
        if ord(data[0:1]) != b0 or ord(data[1:2]) != b1:
            return "ord"
        if int(Obj(b0)) != b0:
            return "int(obj)"
        if bytes(Obj(b0)) != bytes([b0]):
            return "bytes(obj)"
        return None

    def h_fmt(a, b):
        s = "%.2d%.2d" % (a, b)
        if len(s) != 4:
            return "len"
        if int(s[:2]) != a or int(s[2:]) != b:
            return "digits"
        t = ".%d" % a
        if t[0] != "." or int(t[1:]) != a:
            return "%d"
        return None

    def h_wrong(a):
        # deliberately false: must be refuted, at a == 0x80 exactly
        if (a & 0x80) and a < 0x81 and a > 0:
            return "found"
        return None

    n = 0
    checks = [
        (h_bits, {"a": ("int", -70000, 70000)}, "CONFIRMED"),
        (h_shift_or, {"hi": ("int", 0, 2 ** 40), "lo": ("int", 0, 255)}, "CONFIRMED"),
        (h_ord, {"b0": ("int", 0, 255), "b1": ("int", 0, 255)}, "CONFIRMED"),
        (h_fmt, {"a": ("int", 0, 99), "b": ("int", 0, 99)}, "CONFIRMED"),
        (h_wrong, {"a": ("int", -1000, 1000)}, "REFUTED"),
    ]
    for fn, params, want in checks:
        r = engine.explore(fn, params, budget_s=60)
        if r.status != want:
            raise SystemExit("selftest %s: wanted %s got %s (%s, %s, %s)" % (fn.__name__, want, r.status, r.reason, r.failure, r.counterexample))
        if want == "REFUTED" and r.counterexample != {"a": 0x80}:
            raise SystemExit("selftest %s: unexpected counterexample %s" % (fn.__name__, r.counterexample))
        n += r.paths
    return n


def main():
    n1 = concrete()
    n2 = symbolic()
    print("selftest ok: %d concrete comparisons, %d symbolic paths" % (n1, n2))


if __name__ == "__main__":
    main()
