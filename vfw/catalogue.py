"""Finite schema catalogue U_Q (quick) / U_T (thorough).

Each entry: a schema T, the symbolic slots it needs (name -> range), and `mk(**slots)` building the
abstract value from the slots.  The catalogue tier is part of every stated bound.
"""
from vfw.obl import BYTE, B, I, Skip
from vfw.schema import T


class Entry(object):
    def __init__(self, id, t, params, mk, feats=(), thorough=None, tier="quick", shard=()):
        self.id = id
        self.t = t
        self.params = params
        self.thorough = thorough or {}
        self.mk = mk
        self.feats = set(feats)
        self.shard = tuple(shard)  # parameters whose values split the obligation into shards
        self.tier = tier  # 'quick' entries are in both tiers; 'thorough' only in U_T

    def has(self, *f):
        return all(x in self.feats for x in f)


INT_Q = I(-2 ** 33, 2 ** 33)
INT_T = I(-2 ** 65, 2 ** 65)
SMALL = I(0, 200)
SIGNED_SMALL = I(-129, 200)


def octs(n, *o):
    return bytes(list(o)[:n])


def utf8_of(cps):
    out = []
    for c in cps:
        if c < 128:
            out.append(c)
        elif c < 0x800:
            out += [192 + c // 64, 128 + c % 64]
        else:
            out += [224 + c // 4096, 128 + (c // 64) % 64, 128 + c % 64]
    return bytes(out)


# ---------------------------------------------------------------- leaf schemas

INT = T("INT")
OCTS = T("OCTS")
BOOL = T("BOOL")
NULL = T("NULL")
ENUM = T("ENUM")
OID = T("OID")
BITS = T("BITS")
REAL = T("REAL")
UTF8 = T("STR:UTF8")
IA5 = T("STR:IA5")
ANY = T("ANY")


def _p_octs(n=4):
    d = {"n": I(0, n)}
    for i in range(n):
        d["o%d" % i] = BYTE
    return d


def _mk_octs(n=4):
    def mk(**s):
        return bytes([s["o%d" % i] for i in range(n)][: s["n"]])

    return mk


def _mk_ascii(n=3):
    def mk(**s):
        vals = [s["o%d" % i] for i in range(n)]
        for v in vals:
            if v > 127:
                raise Skip()
        return bytes(vals[: s["n"]])

    return mk


def _p_ascii(n=3):
    d = {"n": I(0, n)}
    for i in range(n):
        d["o%d" % i] = I(0, 127)
    return d


def _mk_bits(**s):
    nb, pat = s["nb"], s["pat"]
    if pat == 0:
        v = 0
    elif pat == 1:
        v = 2 ** nb - 1
    else:
        v = (2 ** nb - 1) // 3 if nb else 0  # 0101...
    return (nb, v)


def _mk_oid(**s):
    arcs = (s["a0"], s["a1"], s["a2"], s["a3"])
    return arcs[: s["k"]]


def _mk_enum(**s):
    e = s["e0"]
    return 0 if e == 0 else (1 if e == 1 else 5)


REAL_EXP_BOUNDARIES = (-8388610, -65538, -32770, -258, -130, 126, 254, 32766, 65534, 8388606)


def _mk_real(**s):
    return ("R", s["m"], s["e"])


TIME_CORPUS = [b"20170801120112Z", b"20170801120112.5Z", b"201708011201Z", b"19991231235959.999Z"]
UTC_CORPUS = [b"170801120112Z", b"9912312359Z", b"000101000000Z"]
BMP_CORPUS = ["", "a", "Ж", "aЖ中"]


def leaves():
    L = []
    L.append(Entry("bool", BOOL, {"f0": B}, lambda **s: s["f0"], ["leaf", "univ"]))
    L.append(Entry("int", INT, {"i0": INT_Q}, lambda **s: s["i0"], ["leaf", "univ"], thorough={"i0": INT_T}))
    L.append(Entry("enum", ENUM, {"e0": I(0, 2)}, _mk_enum, ["leaf", "univ"]))
    L.append(Entry("octs", OCTS, _p_octs(4), _mk_octs(4), ["leaf", "univ", "string"]))
    L.append(Entry("null", NULL, {}, lambda **s: None, ["leaf", "univ"]))
    L.append(Entry("oid", OID, {"a0": I(0, 1), "a1": I(0, 39), "a2": I(0, 2 ** 35), "a3": I(0, 300), "k": I(2, 4)}, _mk_oid, ["leaf", "univ"]))
    L.append(Entry("oid2", OID, {"a0": ("const", 2), "a1": I(0, 2 ** 28), "a2": I(0, 2 ** 21), "a3": I(0, 1), "k": I(2, 3)}, _mk_oid, ["leaf", "univ"]))
    L.append(Entry("bits", BITS, {"nb": I(0, 10), "pat": I(0, 2)}, _mk_bits, ["leaf", "univ", "string", "bits"], thorough={"nb": I(0, 18)}))
    L.append(Entry("real", REAL, {"m": I(-20, 20), "e": I(-9, 9)}, _mk_real, ["leaf", "univ", "real"], thorough={"m": I(-63, 63), "e": I(-31, 31)}))
    # exponent octets on the 127/128, 255/256, 32767/32768 ... sign boundaries (the exponent is enumerated by the engine, so it is
    # taken from a window of 3 around each boundary rather than from an interval)
    L.append(Entry("real_exp", REAL, {"mi": I(0, 2), "bi": I(0, len(REAL_EXP_BOUNDARIES) - 1), "d": I(0, 2)},
                   lambda **s: ("R", (1, 3, -5)[s["mi"]], REAL_EXP_BOUNDARIES[s["bi"]] + s["d"]), ["leaf", "univ", "real"], tier="thorough"))
    L.append(Entry("real_inf", REAL, {"f0": B}, lambda **s: "inf" if s["f0"] else "-inf", ["leaf", "univ", "real"]))
    L.append(Entry("utf8", UTF8, {"n": I(0, 2), "c0": I(0, 0x7FF), "c1": I(0, 0x7FF)}, lambda **s: utf8_of([s["c0"], s["c1"]][: s["n"]]), ["leaf", "univ", "string", "char"]))
    for kind in ("IA5", "Visible", "Numeric", "Printable", "ObjectDescriptor"):
        L.append(Entry(kind.lower(), T("STR:" + kind), _p_ascii(3), _mk_ascii(3), ["leaf", "univ", "string", "char"], tier="quick" if kind == "IA5" else "thorough"))
    for kind in ("Teletex", "Videotex", "Graphic", "General"):
        L.append(Entry(kind.lower(), T("STR:" + kind), _p_octs(3), _mk_octs(3), ["leaf", "univ", "string", "char"], tier="quick" if kind == "Teletex" else "thorough"))
    L.append(Entry("bmp", T("STR:BMP"), {"k": I(0, len(BMP_CORPUS) - 1)}, lambda **s: BMP_CORPUS[s["k"]].encode("utf-16-be"), ["leaf", "univ", "string", "char", "corpus"]))
    L.append(Entry("universal", T("STR:Universal"), {"k": I(0, len(BMP_CORPUS) - 1)}, lambda **s: BMP_CORPUS[s["k"]].encode("utf-32-be"), ["leaf", "univ", "string", "char", "corpus"], tier="thorough"))
    L.append(Entry("gentime", T("STR:GeneralizedTime"), {"k": I(0, len(TIME_CORPUS) - 1)}, lambda **s: TIME_CORPUS[s["k"]], ["leaf", "univ", "string", "char", "time", "corpus"]))
    L.append(Entry("utctime", T("STR:UTCTime"), {"k": I(0, len(UTC_CORPUS) - 1)}, lambda **s: UTC_CORPUS[s["k"]], ["leaf", "univ", "string", "char", "time", "corpus"]))
    return L


# ---------------------------------------------------------------- tag stacks

TAG_STACKS_Q = [
    ("I", [("I", "C", 0)]),
    ("E", [("E", "C", 1)]),
    ("EI", [("I", "A", 31), ("E", "C", 30)]),  # EXPLICIT [30] over IMPLICIT [APPLICATION 31]
    ("EE", [("E", "P", 128), ("E", "C", 16384)]),
]
TAG_STACKS_T = TAG_STACKS_Q + [
    ("Ip", [("I", "P", 127)]),
    ("Ea", [("E", "A", 2 ** 32)]),
    ("IE", [("E", "C", 3), ("I", "A", 5)]),  # IMPLICIT [5] over EXPLICIT [3]
    ("EEE", [("E", "C", 0), ("E", "C", 31), ("E", "A", 1)]),
]


def tagged_entries(base_entries, stacks, feat):
    out = []
    for e in base_entries:
        for sid, stack in stacks:
            if e.t.kind in ("CHOICE", "ANY") and stack[0][0] == "I":
                continue
            feats = set(e.feats) | {"tagged", feat}
            feats.discard("univ")
            if all(m == "E" for (m, _c, _n) in stack) and "univ" in e.feats:
                feats.add("explicit_only")
            if any(m == "E" for (m, _c, _n) in stack):
                feats.add("has_explicit")
            out.append(Entry(e.id + "." + sid, e.t.tagged(*stack), e.params, e.mk, feats, e.thorough, e.tier, e.shard))
    return out


# ---------------------------------------------------------------- constructed schemas


def _seq_basic(kind):
    # { a INTEGER, b OCTET STRING OPTIONAL, c BOOLEAN DEFAULT TRUE, d [0] IMPLICIT UTF8String OPTIONAL }
    return T(kind, comps=[("a", INT, "req", None), ("b", OCTS, "opt", None), ("c", BOOL, "def", True),
                          ("d", T("STR:UTF8").tagged(("I", "C", 0)), "opt", None)], name=kind + "{a,b?,c=T,d?}")


def _mk_seq_basic(**s):
    av = {"a": s["i0"]}
    if s["hb"]:
        av["b"] = bytes([s["o0"], s["o1"]][: s["n"]])
    if s["hc"]:
        av["c"] = s["f0"]
    if s["hd"]:
        av["d"] = utf8_of([s["c0"]])
    return av


P_SEQ_BASIC = {"i0": SMALL, "hb": B, "n": I(0, 2), "o0": BYTE, "o1": BYTE, "hc": B, "f0": B, "hd": B, "c0": I(0, 0x7FF)}

CH = T("CHOICE", comps=[("x", INT, "req", None), ("y", OCTS, "req", None), ("z", BOOL.tagged(("E", "C", 2)), "req", None)], name="CHOICE{x INT,y OCTS,z [2]E BOOL}")
CH_NESTED = T("CHOICE", comps=[("p", NULL, "req", None), ("q", CH, "req", None)], name="CHOICE{p NULL,q CHOICE}")


def _mk_choice(**s):
    w = s["w"]
    if w == 0:
        return ("x", s["i0"])
    if w == 1:
        return ("y", bytes([s["o0"], s["o1"]][: s["n"]]))
    return ("z", s["f0"])


P_CHOICE = {"w": I(0, 2), "i0": SMALL, "n": I(0, 2), "o0": BYTE, "o1": BYTE, "f0": B}


def _mk_choice_nested(**s):
    if s["w"] == 3:
        return ("p", None)
    return ("q", _mk_choice(**s))


def _mk_seqof_int(**s):
    return [s["i0"], s["i1"], s["i2"]][: s["k"]]


def _mk_setof_octs(**s):
    a = bytes([s["o0"], s["o1"]][: s["n"]])
    b = bytes([s["o2"]])
    c = bytes([s["o0"]])
    return [a, b, c][: s["k"]]


SET_MIXED = T("SET", comps=[("a", INT, "req", None), ("b", OCTS, "opt", None), ("c", BOOL.tagged(("E", "C", 5)), "def", False),
                            ("d", T("CHOICE", comps=[("x", NULL, "req", None), ("y", OID, "req", None)]), "req", None),
                            ("e", INT.tagged(("I", "A", 3)), "opt", None)], name="SET{a INT,b OCTS?,c [5]E BOOL=F,d CHOICE{NULL,OID},e [A3]I INT?}")


def _mk_set_mixed(**s):
    av = {"a": s["i0"]}
    if s["hb"]:
        av["b"] = bytes([s["o0"], s["o1"]][: s["n"]])
    if s["hc"]:
        av["c"] = s["f0"]
    av["d"] = ("x", None) if s["w"] == 0 else ("y", (1, 3, s["a2"]))
    if s["he"]:
        av["e"] = s["i1"]
    return av


P_SET_MIXED = {"i0": SMALL, "hb": B, "n": I(0, 2), "o0": BYTE, "o1": BYTE, "hc": B, "f0": B, "w": I(0, 1), "a2": I(0, 200), "he": B, "i1": SMALL}

SEQ_NEST = T("SEQ", comps=[("h", INT, "req", None), ("l", T("SEQOF", elem=INT), "req", None), ("s", _seq_basic("SEQ"), "opt", None),
                           ("t", _seq_basic("SET").tagged(("E", "C", 7)), "opt", None)], name="SEQ{h,l SEQOF INT,s SEQ?,t [7]E SET?}")


def _mk_seq_nest(**s):
    av = {"h": s["i1"], "l": [s["i1"], 5][: s["k"]]}
    inner = {"a": s["i0"]}
    if s["hb"]:
        inner["b"] = bytes([s["o0"]])
    if s["hc"]:
        inner["c"] = s["f0"]
    if s["hs"]:
        av["s"] = inner
    if s["ht"]:
        av["t"] = dict(inner)
    return av


P_SEQ_NEST = {"i0": SMALL, "i1": I(0, 1), "k": I(0, 2), "hs": B, "ht": B, "hb": B, "o0": BYTE, "hc": B, "f0": B}

SEQ_ANY = T("SEQ", comps=[("id", INT, "req", None), ("v", ANY, "req", None)], name="SEQ{id INT, v ANY}")
SEQ_ANY_TAGGED = T("SEQ", comps=[("id", INT, "req", None), ("v", ANY.tagged(("E", "C", 0)), "opt", None)], name="SEQ{id INT, v [0]E ANY?}")


def _mk_seq_any(**s):
    from vfw import x690ref as R

    if s["w"] == 0:
        inner = R.der(INT, s["i1"])
    elif s["w"] == 1:
        inner = R.der(OCTS, bytes([s["o0"], s["o1"]][: s["n"]]))
    else:
        # an indefinite-length TLV holding another indefinite-length TLV: 30 80 30 80 02 01 <i1> 00 00 04 <n> .. 00 00
        inner = [0x30, 0x80, 0x30, 0x80, 0x02, 0x01, s["i1"], 0x00, 0x00, 0x04, s["n"]] + [s["o0"], s["o1"]][: s["n"]] + [0x00, 0x00]
    return {"id": s["i0"], "v": bytes(inner)}


P_SEQ_ANY = {"i0": SMALL, "i1": I(0, 127), "w": I(0, 1), "n": I(0, 2), "o0": BYTE, "o1": BYTE}


SEQ_ANY_DEF = T("SEQ", comps=[("version", INT, "def", 0), ("readings", T("SEQOF", elem=INT), "req", None), ("names", T("SETOF", elem=OCTS), "opt", None),
                               ("extra", ANY.tagged(("E", "C", 9)), "opt", None)], name="SEQ{version INT=0,readings SEQOF INT,names SETOF OCTS?,extra [9]E ANY?}")


def _mk_seq_any_def(**s):
    from vfw import x690ref as R

    av = {"readings": [s["i1"], 2][: s["k"]]}
    if s["hb"]:
        av["version"] = s["i0"]
    if s["hc"]:
        av["names"] = [bytes([s["o0"]])]
    if s["hd"]:
        av["extra"] = bytes(R.der(INT, s["i1"]))
    return av


def _mk_seq_any_tagged(**s):
    av = _mk_seq_any(**s)
    if not s["hv"]:
        del av["v"]
    return av


# SET whose untagged CHOICE member has EXPLICITly tagged alternatives: canonical order follows the outermost tag actually sent
SET_CHX = T("SET", comps=[("b", OCTS.tagged(("I", "C", 3)), "req", None),
                          ("c", T("CHOICE", comps=[("x", INT.tagged(("E", "C", 5)), "req", None), ("y", BOOL.tagged(("I", "C", 1)), "req", None),
                                                   ("z", UTF8, "req", None), ("w", NULL.tagged(("E", "A", 2)), "req", None),
                                                   ("v", T("CHOICE", comps=[("p", INT, "req", None), ("q", BOOL, "req", None)]).tagged(("E", "C", 6)), "req", None)]), "req", None),
                          ("e", INT.tagged(("E", "C", 4)), "opt", None)],
            name="SET{b [3]I OCTS,c CHOICE{x [5]E INT,y [1]I BOOL,z UTF8,w [A2]E NULL,v [6]E CHOICE{p INT,q BOOL}},e [4]E INT?}")


def _mk_set_chx(**s):
    w = s["w"]
    c = (("x", s["i0"]) if w == 0 else ("y", s["f0"]) if w == 1 else ("z", utf8_of([s["c0"]])) if w == 2 else ("w", None) if w == 3
         else ("v", ("p", s["i0"]) if s["f0"] else ("q", s["he"])))
    av = {"b": bytes([s["o0"]][: s["n"]]), "c": c}
    if s["he"]:
        av["e"] = s["i1"]
    return av


P_SET_CHX = {"w": I(0, 4), "i0": SMALL, "f0": B, "c0": I(0, 0x7FF), "o0": BYTE, "n": I(0, 1), "he": B, "i1": I(0, 1)}

# several long-form (>= 31) tags of the same class inside one value, same number in primitive and constructed form
SEQ_HITAGS = T("SEQ", comps=[("a", INT.tagged(("I", "C", 40)), "req", None), ("b", INT.tagged(("I", "C", 1000)), "opt", None),
                             ("c", OCTS.tagged(("E", "C", 31)), "opt", None), ("d", BOOL.tagged(("I", "A", 31)), "opt", None),
                             ("e", T("SEQ", comps=[("x", INT.tagged(("I", "C", 41)), "req", None)]).tagged(("I", "C", 41)), "opt", None),
                             ("f", INT.tagged(("E", "C", 40)), "opt", None)],
               name="SEQ{a [40]I INT,b [1000]I INT?,c [31]E OCTS?,d [A31]I BOOL?,e [41]I SEQ{x [41]I INT}?,f [40]E INT?}")
SEQ_HITAGS_E = T("SEQ", comps=[("a", INT.tagged(("E", "C", 31)), "req", None), ("b", INT.tagged(("E", "C", 32)), "req", None),
                               ("c", OCTS.tagged(("E", "C", 200)), "opt", None)], name="SEQ{a [31]E INT,b [32]E INT,c [200]E OCTS?}")


def _mk_seq_hitags(**s):
    av = {"a": s["i0"]}
    if s["hb"]:
        av["b"] = s["i1"]
    if s["hc"]:
        av["c"] = bytes([s["o0"]][: s["n"]])
    if s["hd"]:
        av["d"] = s["f0"]
    if s["he"]:
        av["e"] = {"x": s["i1"]}
    if s["hf"]:
        av["f"] = s["i1"]
    return av


def _mk_seq_hitags_e(**s):
    av = {"a": s["i0"], "b": s["i1"]}
    if s["hc"]:
        av["c"] = bytes([s["o0"]][: s["n"]])
    return av


P_SEQ_HITAGS = {"i0": SMALL, "i1": I(0, 1), "hb": B, "hc": B, "hd": B, "he": B, "hf": B, "f0": B, "o0": BYTE, "n": I(0, 1)}

# a wide heterogeneous record (more than 10 members: schemaless decoding generates field-0 .. field-11) and OPTIONAL NULL members
SEQ_WIDE = T("SEQ", comps=[("f%d" % i_, (INT if i_ % 2 == 0 else OCTS), "req", None) for i_ in range(12)], name="SEQ{f0 INT,f1 OCTS,...,f11 OCTS}")


def _mk_seq_wide(**s):
    av = {}
    for i_ in range(12):
        av["f%d" % i_] = (s["i0"] + i_) if i_ % 2 == 0 else bytes([s["o0"], 48 + i_][: s["n"]])
    return av


SEQ_OPTNULL = T("SEQ", comps=[("name", OCTS, "req", None), ("marker", NULL, "opt", None), ("m2", NULL.tagged(("E", "C", 0)), "opt", None),
                              ("flag", BOOL, "opt", None), ("z", INT, "opt", None)], name="SEQ{name OCTS,marker NULL?,m2 [0]E NULL?,flag BOOL?,z INT?}")


def _mk_seq_optnull(**s):
    av = {"name": bytes([s["o0"]][: s["n"]])}
    if s["hb"]:
        av["marker"] = None
    if s["hc"]:
        av["m2"] = None
    if s["hd"]:
        av["flag"] = s["f0"]
    if s["he"]:
        av["z"] = s["i1"]
    return av


# untagged CHOICE whose alternatives are constructed types that may be empty
CH_CONS = T("CHOICE", comps=[("l", T("SEQOF", elem=INT), "req", None), ("s", T("SET", comps=[("x", INT, "opt", None)]), "req", None),
                             ("o", T("SETOF", elem=OCTS).tagged(("I", "C", 0)), "req", None), ("n", NULL, "req", None)], name="CHOICE{l SEQOF INT,s SET{x INT?},o [0]I SETOF OCTS,n NULL}")


def _mk_choice_cons(**s):
    w = s["w"]
    if w == 0:
        return ("l", [s["i0"], 5][: s["k"]])
    if w == 1:
        return ("s", {"x": s["i0"]} if s["k"] else {})
    if w == 2:
        return ("o", [bytes([s["o0"]]), b""][: s["k"]])
    return ("n", None)


# two different untagged CHOICE members next to each other in one OPTIONAL run; SEQUENCE OF explicitly tagged strings
CH_A = T("CHOICE", comps=[("n", UTF8.tagged(("I", "C", 0)), "req", None), ("k", INT.tagged(("I", "C", 1)), "req", None)], name="CHOICE{n [0]I UTF8,k [1]I INT}")
CH_B = T("CHOICE", comps=[("code", INT.tagged(("I", "C", 3)), "req", None), ("txt", OCTS.tagged(("I", "C", 4)), "req", None)], name="CHOICE{code [3]I INT,txt [4]I OCTS}")
SEQ_2CH = T("SEQ", comps=[("id", INT, "req", None), ("name", CH_A, "opt", None), ("address", CH_B, "opt", None), ("active", BOOL, "def", False)],
            name="SEQ{id INT,name CHOICE_A?,address CHOICE_B?,active BOOL=F}")


def _mk_seq_2ch(**s):
    av = {"id": s["i0"]}
    if s["hb"]:
        av["name"] = ("n", utf8_of([s["c0"]])) if s["f0"] else ("k", s["i1"])
    if s["hc"]:
        av["address"] = ("code", s["i1"]) if s["w"] == 0 else ("txt", bytes([s["o0"]]))
    if s["hd"]:
        av["active"] = True
    return av


SEQOF_OCTS_E = T("SEQOF", elem=OCTS.tagged(("E", "C", 0)), name="SEQOF [0]E OCTS")


def _mk_seqof_octs_e(**s):
    return [bytes([s["o0"], s["o1"]][: s["n"]]), bytes([s["o2"]]), bytes([s["o0"]])][: s["k"]]


# SET with an OPTIONAL member ahead (in tag order) of a mandatory list that may be empty; SEQUENCE whose DEFAULT is a SEQUENCE OF
SET_OPTC = T("SET", comps=[("a", INT, "req", None), ("o", OCTS.tagged(("I", "C", 0)), "opt", None), ("l", T("SEQOF", elem=INT).tagged(("I", "C", 1)), "req", None),
                           ("i", T("SEQ", comps=[("x", INT, "opt", None)]).tagged(("I", "C", 2)), "opt", None), ("m", T("SETOF", elem=OCTS).tagged(("I", "C", 3)), "req", None)],
             name="SET{a INT,o [0]I OCTS?,l [1]I SEQOF INT,i [2]I SEQ{x INT?}?,m [3]I SETOF OCTS}")


def _mk_set_optc(**s):
    av = {"a": s["i0"], "l": [s["i1"], 5][: s["k"]], "m": [bytes([s["o0"]])][: s["k2"]]}
    if s["hb"]:
        av["o"] = bytes([s["o0"]])
    if s["hi"]:
        av["i"] = {"x": s["i1"]}
    return av


SEQ_DEFL = T("SEQ", comps=[("name", UTF8, "req", None), ("weights", T("SEQOF", elem=INT), "def", [1, 2, 3]), ("z", BOOL, "opt", None)], name="SEQ{name UTF8,weights SEQOF INT={1,2,3},z BOOL?}")


def _mk_seq_defl(**s):
    av = {"name": utf8_of([s["c0"]])}
    if s["hb"]:
        av["weights"] = [1, 2, 3] if s["w"] == 0 else [1, 2] if s["w"] == 1 else [3, 2, 1]
    if s["hc"]:
        av["z"] = s["f0"]
    return av


# OPTIONAL constructed members: "absent" and "present but empty" are different abstract values
SEQ_OPTC = T("SEQ", comps=[("a", INT, "req", None),
                           ("i", T("SEQ", comps=[("x", INT, "opt", None)]), "opt", None),
                           ("l", T("SEQOF", elem=INT).tagged(("I", "C", 0)), "opt", None),
                           ("u", T("SET", comps=[("y", BOOL, "def", False)]), "opt", None),
                           ("m", T("SEQOF", elem=INT).tagged(("I", "C", 2)), "req", None)],
             name="SEQ{a INT,i SEQ{x INT?}?,l [0]I SEQOF INT?,u SET{y BOOL=F}?,m [2]I SEQOF INT}")


def _mk_seq_optc(**s):
    av = {"a": s["i0"]}
    if s["hi"]:
        av["i"] = {"x": s["i1"]} if s["hx"] else {}
    if s["hl"]:
        av["l"] = [s["i1"], 5][: s["k"]]
    if s["hu"]:
        av["u"] = {"y": True} if s["f0"] else {}
    av["m"] = [7][: s["k2"]]
    return av


P_SEQ_OPTC = {"i0": SMALL, "i1": I(0, 1), "hi": B, "hx": B, "hl": B, "k": I(0, 2), "hu": B, "f0": B, "k2": I(0, 1)}


def constructed():
    C = []
    C.append(Entry("seq", _seq_basic("SEQ"), P_SEQ_BASIC, _mk_seq_basic, ["constructed", "univ", "record"], shard=("hb", "hd")))
    C.append(Entry("set", _seq_basic("SET"), P_SEQ_BASIC, _mk_seq_basic, ["constructed", "univ", "record", "set"], shard=("hb", "hd")))
    C.append(Entry("seqof_int", T("SEQOF", elem=INT), {"k": I(0, 3), "i0": I(-2 ** 17, 2 ** 17), "i1": SIGNED_SMALL, "i2": I(0, 1)}, _mk_seqof_int, ["constructed", "univ", "list"]))
    C.append(Entry("setof_int", T("SETOF", elem=INT), {"k": I(0, 3), "i0": I(-40000, 40000), "i1": SIGNED_SMALL, "i2": I(0, 1)}, _mk_seqof_int, ["constructed", "univ", "list", "setof"], shard=("k",)))
    C.append(Entry("setof_octs", T("SETOF", elem=OCTS), {"k": I(0, 3), "n": I(0, 2), "o0": BYTE, "o1": BYTE, "o2": BYTE}, _mk_setof_octs, ["constructed", "univ", "list", "setof"], shard=("k",)))
    C.append(Entry("choice", CH, P_CHOICE, _mk_choice, ["constructed", "choice", "univ"]))
    C.append(Entry("choice_nested", CH_NESTED, dict(P_CHOICE, w=I(0, 3)), _mk_choice_nested, ["constructed", "choice", "univ"]))
    C.append(Entry("choice.E", CH.tagged(("E", "C", 4)), P_CHOICE, _mk_choice, ["constructed", "choice", "tagged", "has_explicit", "explicit_only"]))
    C.append(Entry("set_mixed", SET_MIXED, P_SET_MIXED, _mk_set_mixed, ["constructed", "record", "set", "choice"], shard=("w", "he", "hc")))
    C.append(Entry("seq_nest", SEQ_NEST, P_SEQ_NEST, _mk_seq_nest, ["constructed", "record", "nested"], shard=("hs", "ht")))
    C.append(Entry("seqof_seq", T("SEQOF", elem=_seq_basic("SEQ")), dict(P_SEQ_BASIC, k=I(0, 2)), lambda **s: [_mk_seq_basic(**s), {"a": s["i0"]}][: s["k"]], ["constructed", "list", "nested"], shard=("k", "hb")))
    C.append(Entry("seqof_choice", T("SEQOF", elem=CH), dict(P_CHOICE, k=I(0, 2)), lambda **s: [_mk_choice(**s), ("x", 7)][: s["k"]], ["constructed", "list", "nested", "choice"]))
    C.append(Entry("seq_any", SEQ_ANY, P_SEQ_ANY, _mk_seq_any, ["constructed", "record", "any"]))
    # ANY holding an indefinite-length TLV that holds another one: a value BER and CER can carry, DER cannot ("ber_only": kept out of every
    # harness that involves the DER codec, see props/common.all_entries)
    C.append(Entry("seq_any_indef", SEQ_ANY, dict(P_SEQ_ANY, w=("const", 2)), _mk_seq_any, ["constructed", "record", "any", "ber_only"]))
    C.append(Entry("seq_any_indef.E", SEQ_ANY_TAGGED, dict(P_SEQ_ANY, w=("const", 2), hv=B), _mk_seq_any_tagged, ["constructed", "record", "any", "ber_only"]))
    C.append(Entry("seq_any.E", SEQ_ANY_TAGGED, dict(P_SEQ_ANY, hv=B), _mk_seq_any_tagged, ["constructed", "record", "any"]))
    C.append(Entry("seq_hitags", SEQ_HITAGS, P_SEQ_HITAGS, _mk_seq_hitags, ["constructed", "record", "tagged_members"], shard=("hb", "he")))
    C.append(Entry("seq_hitags.E", SEQ_HITAGS_E, {"i0": SMALL, "i1": I(0, 1), "hc": B, "o0": BYTE, "n": I(0, 1)}, _mk_seq_hitags_e,
                   ["constructed", "record", "tagged_members", "has_explicit"]))
    C.append(Entry("set_optc", SET_OPTC, {"i0": SMALL, "i1": I(0, 1), "k": I(0, 2), "k2": I(0, 1), "hb": B, "hi": B, "o0": BYTE}, _mk_set_optc,
                   ["constructed", "record", "set", "nested"], shard=("hb", "hi")))
    C.append(Entry("seq_defl", SEQ_DEFL, {"c0": I(0, 0x7FF), "hb": B, "w": I(0, 2), "hc": B, "f0": B}, _mk_seq_defl, ["constructed", "record", "nested"], shard=("hb",)))
    C.append(Entry("seq_2ch", SEQ_2CH, {"i0": SMALL, "i1": I(0, 1), "hb": B, "f0": B, "c0": I(0, 0x7FF), "hc": B, "w": I(0, 1), "o0": BYTE, "hd": B}, _mk_seq_2ch,
                   ["constructed", "record", "choice"], shard=("hb", "hc")))
    C.append(Entry("seqof_octs.E", SEQOF_OCTS_E, {"k": I(0, 3), "n": I(0, 2), "o0": BYTE, "o1": BYTE, "o2": BYTE}, _mk_seqof_octs_e,
                   ["constructed", "list", "has_explicit", "univ"], shard=("k",)))
    C.append(Entry("choice_cons", CH_CONS, {"w": I(0, 3), "i0": SMALL, "k": I(0, 2), "o0": BYTE}, _mk_choice_cons, ["constructed", "choice"], shard=("w",)))
    C.append(Entry("seqof_choice_cons", T("SEQOF", elem=CH_CONS), {"w": I(0, 3), "i0": SMALL, "k": I(0, 2), "o0": BYTE, "k2": I(0, 2)},
                   lambda **s: [_mk_choice_cons(**s), ("l", [])][: s["k2"]], ["constructed", "list", "nested", "choice"], shard=("w",)))
    C.append(Entry("seq_wide", SEQ_WIDE, {"i0": SMALL, "o0": BYTE, "n": I(0, 2)}, _mk_seq_wide, ["constructed", "record", "univ"]))
    C.append(Entry("seq_optnull", SEQ_OPTNULL, {"o0": BYTE, "n": I(0, 1), "hb": B, "hc": B, "hd": B, "f0": B, "he": B, "i1": I(0, 1)}, _mk_seq_optnull,
                   ["constructed", "record", "has_explicit"]))
    C.append(Entry("set_chx", SET_CHX, P_SET_CHX, _mk_set_chx, ["constructed", "record", "set", "choice", "has_explicit"], shard=("w",)))
    C.append(Entry("seq_optc", SEQ_OPTC, P_SEQ_OPTC, _mk_seq_optc, ["constructed", "record", "nested"], shard=("hi", "hl")))
    C.append(Entry("seq_any_def", SEQ_ANY_DEF, {"i0": SMALL, "i1": I(0, 1), "k": I(0, 2), "hb": B, "hc": B, "o0": BYTE, "hd": B}, _mk_seq_any_def,
                   ["constructed", "record", "any"], shard=("hb", "hd")))
    C.append(Entry("seqof_empty_elem", T("SEQOF", elem=T("SEQOF", elem=NULL)), {"k": I(0, 2), "k2": I(0, 2)}, lambda **s: [[None] * s["k2"], []][: s["k"]], ["constructed", "list", "nested", "univ"]))
    return C


_CACHE = {}


def catalogue(tier="quick"):
    if tier in _CACHE:
        return _CACHE[tier]
    L = leaves()
    C = constructed()
    basis = [e for e in L if e.id in ("int", "octs", "bool", "utf8", "bits", "null", "oid")]
    out = list(L) + list(C)
    out += tagged_entries(basis, TAG_STACKS_Q, "qstack")
    out += tagged_entries([e for e in C if e.id in ("seq", "seqof_int", "set", "setof_octs")], TAG_STACKS_Q[:2] + TAG_STACKS_Q[3:], "qstack")
    out += tagged_entries([e for e in L if e.id in ("int", "octs")], [TAG_STACKS_T[6]], "qstack")  # IMPLICIT over EXPLICIT
    if tier == "thorough":
        rest = [e for e in L if e.id not in [b.id for b in basis]]
        out += tagged_entries(rest, TAG_STACKS_Q[:3], "tstack")
        out += tagged_entries([e for e in basis if e.id not in ("int", "octs")], TAG_STACKS_T[4:], "tstack")
        out += tagged_entries([e for e in basis if e.id in ("int", "octs")], [TAG_STACKS_T[4], TAG_STACKS_T[5], TAG_STACKS_T[7]], "tstack")
        out += tagged_entries([e for e in C if e.id in ("seq", "set", "seqof_int", "setof_int", "seq_nest", "set_mixed")], TAG_STACKS_T[4:], "tstack")
    else:
        out = [e for e in out if e.tier == "quick"]
    ids = set()
    for e in out:
        assert e.id not in ids, e.id
        ids.add(e.id)
    _CACHE[tier] = out
    return out


def by_id(eid):
    for e in catalogue("thorough"):
        if e.id == eid:
            return e
    raise KeyError(eid)


def select(tier, *feats, **kw):
    not_feats = kw.get("without", ())
    return [e for e in catalogue(tier) if e.has(*feats) and not any(f in e.feats for f in not_feats)]
