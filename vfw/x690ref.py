"""Independent X.690 reference: distinguished encoder, generic BER reader, nondeterministic BER writer.

Written from X.690 (08/2015) clauses 8, 10, 11 with plain arithmetic (// % comparisons; no bit
operators, no hashing) so that symbolic integers flow through.  It does not import pyasn1.
Operates on vfw.schema.T descriptions and abstract values.

All encoders return *lists of ints* (octet values); `b(x)` turns them into bytes.
"""

CLSBITS = {"U": 0, "A": 64, "C": 128, "P": 192}


def b(octs):
    return bytes(octs)


# ------------------------------------------------------------------ identifier / length octets


def enc_ident(cls, num, constructed):
    """X.690 8.1.2"""
    lead = CLSBITS[cls] + (32 if constructed else 0)
    if num < 31:
        return [lead + num]
    digits = []
    n = num
    while True:
        digits.append(n % 128)
        n //= 128
        if n == 0:
            break
    digits.reverse()
    out = [lead + 31]
    for i, d in enumerate(digits):
        out.append(d + (128 if i < len(digits) - 1 else 0))
    return out


def enc_len(n, pad=0):
    """X.690 8.1.3 definite form.  pad == 0: the minimal (DER) form.  pad = k > 0: a non-minimal long form
    (BER permits, DER forbids): for n < 128 the long form with k-1 leading zero octets, for n >= 128 the
    long form with k leading zero octets."""
    if n < 128 and pad == 0:
        return [n]
    digits = []
    m = n
    while m > 0:
        digits.append(m % 256)
        m //= 256
    if not digits:
        digits = [0]
    digits.reverse()
    if pad:
        zeros = pad - 1 if n < 128 else pad
        digits = [0] * zeros + digits
    return [128 + len(digits)] + digits


def tlv(cls, num, constructed, content, pad=0):
    return enc_ident(cls, num, constructed) + enc_len(len(content), pad) + list(content)


def tlv_indef(cls, num, content):
    return enc_ident(cls, num, True) + [128] + list(content) + [0, 0]


# ------------------------------------------------------------------ content octets


def int_content(n):
    """X.690 8.3: two's complement, minimal number of octets."""
    k = 1
    lo, hi = -128, 127
    while n < lo or n > hi:
        k += 1
        lo *= 256
        hi = hi * 256 + 255
    m = n if n >= 0 else n + (hi - lo + 1)  # n + 256^k
    out = []
    for _ in range(k):
        out.append(m % 256)
        m //= 256
    out.reverse()
    return out


def base128(n):
    digits = []
    while True:
        digits.append(n % 128)
        n //= 128
        if n == 0:
            break
    digits.reverse()
    return [d + (128 if i < len(digits) - 1 else 0) for i, d in enumerate(digits)]


def oid_content(arcs):
    """X.690 8.19"""
    first = arcs[0] * 40 + arcs[1]
    out = base128(first)
    for a in arcs[2:]:
        out += base128(a)
    return out


def bits_content(nbits, val):
    """X.690 8.6.2 / 11.2: initial octet = unused bits, unused bits zero."""
    if nbits == 0:
        return [0]
    unused = (8 - nbits % 8) % 8
    v = val * (2 ** unused)
    nbytes = (nbits + unused) // 8
    out = []
    for _ in range(nbytes):
        out.append(v % 256)
        v //= 256
    out.reverse()
    return [unused] + out


def real_content(av):
    """X.690 8.5 / 11.3 for binary reals: base 2, mantissa odd (or zero), minimal exponent octets."""
    if av == "inf":
        return [0x40]
    if av == "-inf":
        return [0x41]
    _, m, e = av
    if m == 0:
        return []
    sign = 0
    if m < 0:
        sign = 64
        m = -m
    while m % 2 == 0:
        m //= 2
        e += 1
    eo = int_content(e)
    if len(eo) == 1:
        first = 128 + sign + 0
        eocts = eo
    elif len(eo) == 2:
        first = 128 + sign + 1
        eocts = eo
    elif len(eo) == 3:
        first = 128 + sign + 2
        eocts = eo
    else:
        first = 128 + sign + 3
        eocts = [len(eo)] + eo
    mo = []
    while m > 0:
        mo.append(m % 256)
        m //= 256
    mo.reverse()
    return [first] + eocts + mo


def prim_content(t, av):
    k = t.kind
    if k == "BOOL":
        return [255 if av else 0]
    if k in ("INT", "ENUM"):
        return int_content(av)
    if k == "OCTS" or t.is_str:
        return list(av)
    if k == "NULL":
        return []
    if k == "OID":
        return oid_content(av)
    if k == "BITS":
        return bits_content(av[0], av[1])
    if k == "REAL":
        return real_content(av)
    raise ValueError(k)


# ------------------------------------------------------------------ DER


def _comp(t, name):
    return [c for c in t.comps if c[0] == name][0]


def _is_default(ct, a, dflt):
    from vfw.schema import same

    return same(ct, a, dflt)


def outer_tag(t, av=None):
    """(cls, num) of the outermost tag of t's encoding; for untagged CHOICE the chosen alternative's."""
    tl = t.tag_list()
    if tl:
        return tl[0]
    if t.kind == "CHOICE":
        name, inner = av
        return outer_tag(_comp(t, name)[1], inner)
    raise ValueError("no tag")


def _tag_order(tg):
    return (CLSBITS[tg[0]], tg[1])


def _lex_padded_less(x, y):
    """X.690 11.6: compare as octet strings with the shorter padded by trailing 0-octets."""
    n = max(len(x), len(y))
    for i in range(n):
        a = x[i] if i < len(x) else 0
        c = y[i] if i < len(y) else 0
        if a != c:
            return a < c
    return False


def _sort_setof(encs):
    out = []
    for e in encs:
        i = 0
        while i < len(out) and not _lex_padded_less(e, out[i]):
            i += 1
        out.insert(i, e)
    return out


def content_der(t, av):
    """content octets and constructed flag of the innermost (own-tag) TLV in DER"""
    k = t.kind
    if k in ("SEQ", "SET"):
        parts = []
        for (name, ct, mode, dflt) in t.comps:
            if name not in av:
                continue
            if mode == "def" and _is_default(ct, av[name], dflt):
                continue
            parts.append((outer_tag(ct, av[name]) if k == "SET" else None, der(ct, av[name])))
        if k == "SET":
            # X.690 10.3 / 8.12: canonical order of tags
            srt = []
            for p in parts:
                i = 0
                while i < len(srt) and not (_tag_order(p[0]) < _tag_order(srt[i][0])):
                    i += 1
                srt.insert(i, p)
            parts = srt
        out = []
        for _tg, e in parts:
            out += e
        return out, True
    if k == "SEQOF":
        out = []
        for x in av:
            out += der(t.elem, x)
        return out, True
    if k == "SETOF":
        encs = _sort_setof([der(t.elem, x) for x in av])
        out = []
        for e in encs:
            out += e
        return out, True
    return prim_content(t, av), False


def der(t, av):
    """Distinguished encoding of abstract value av of schema t -> list of octets."""
    k = t.kind
    if k == "CHOICE":
        name, inner = av
        body = der(_comp(t, name)[1], inner)
        for (cls, num) in reversed(t.tag_list()):
            body = tlv(cls, num, True, body)
        return body
    if k == "ANY":
        body = list(av)
        for (cls, num) in reversed(t.tag_list()):
            body = tlv(cls, num, True, body)
        return body
    content, constructed = content_der(t, av)
    tl = t.tag_list()
    cls, num = tl[-1]
    body = tlv(cls, num, constructed, content)
    for (cls, num) in reversed(tl[:-1]):
        body = tlv(cls, num, True, body)
    return body


# ------------------------------------------------------------------ nondeterministic BER writer


class Choices(object):
    """Source of X.690 choice points for ber_nd.  Subclass or pass callables; defaults = DER-like."""

    def pad(self, t, level):  # extra zero length octets 0..2
        return 0

    def indef(self, t, level):  # indefinite length for this constructed TLV?
        return False

    def true_octet(self):
        return 255

    def segments(self, t, content):  # None (primitive) or list of pieces (each piece: list | ('C', [pieces]))
        return None

    def perm(self, t, n):  # permutation of range(n) for SET members
        return list(range(n))

    def keep_default(self, t, name):  # encode a DEFAULT member although equal to default
        return False


def _string_tlvs(ch, t, content, own, level):
    """content -> TLV for a string-ish type, primitive or segmented (X.690 8.7, 8.6, 8.23)."""
    cls, num = own
    segs = ch.segments(t, content)
    if segs is None:
        return tlv(cls, num, False, content, ch.pad(t, level))

    def seg_tlv(piece, lvl):
        # fragments are OCTET STRING (or BIT STRING) universal TLVs
        ucls, unum = ("U", 3) if t.kind == "BITS" else ("U", 4)
        if isinstance(piece, tuple) and piece[0] == "C":
            inner = []
            for p in piece[1]:
                inner += seg_tlv(p, lvl + 1)
            if piece[2]:
                return tlv_indef(ucls, unum, inner)
            return tlv(ucls, unum, True, inner)
        return tlv(ucls, unum, False, piece)

    inner = []
    for p in segs:
        inner += seg_tlv(p, level + 1)
    if ch.indef(t, level):
        return tlv_indef(cls, num, inner)
    return tlv(cls, num, True, inner, ch.pad(t, level))


def ber_nd(t, av, ch, level=0):
    """One of the BER encodings of av, selected by the choice source `ch` -> list of octets."""
    k = t.kind
    tl = t.tag_list()

    def wrap(body, wrappers):
        for i, (cls, num) in enumerate(reversed(wrappers)):
            if ch.indef(t, ("wrap", level, i)):
                body = tlv_indef(cls, num, body)
            else:
                body = tlv(cls, num, True, body, ch.pad(t, ("wrap", level, i)))
        return body

    if k == "CHOICE":
        name, inner = av
        return wrap(ber_nd(_comp(t, name)[1], inner, ch, level + 1), tl)
    if k == "ANY":
        return wrap(list(av), tl)
    own = tl[-1]
    if k in ("SEQ", "SET"):
        parts = []
        for (name, ct, mode, dflt) in t.comps:
            if name not in av:
                continue
            if mode == "def" and _is_default(ct, av[name], dflt) and not ch.keep_default(t, name):
                continue
            parts.append(ber_nd(ct, av[name], ch, level + 1))
        if k == "SET":
            parts = [parts[i] for i in ch.perm(t, len(parts))]
        content = []
        for p in parts:
            content += p
        constructed = True
    elif k in ("SEQOF", "SETOF"):
        content = []
        for x in av:
            content += ber_nd(t.elem, x, ch, level + 1)
        constructed = True
    elif k == "BOOL":
        content = [ch.true_octet() if av else 0]
        constructed = False
    elif k == "OCTS" or t.is_str or k == "BITS":
        body = _string_tlvs(ch, t, prim_content(t, av), own, level)
        return wrap(body, tl[:-1])
    else:
        content = prim_content(t, av)
        constructed = False
    if constructed and ch.indef(t, level):
        body = tlv_indef(own[0], own[1], content)
    else:
        body = tlv(own[0], own[1], constructed, content, ch.pad(t, level))
    return wrap(body, tl[:-1])


# ------------------------------------------------------------------ generic BER reader


class BadEncoding(Exception):
    pass


def read_ident(buf, pos):
    if pos >= len(buf):
        raise BadEncoding("eof in identifier")
    o = buf[pos]
    pos += 1
    clsv = (o // 64) * 64
    constructed = (o // 32) % 2 == 1
    num = o % 32
    if num == 31:
        num = 0
        while True:
            if pos >= len(buf):
                raise BadEncoding("eof in identifier")
            o = buf[pos]
            pos += 1
            num = num * 128 + o % 128
            if o < 128:
                break
    cls = {0: "U", 64: "A", 128: "C", 192: "P"}[clsv]
    return cls, num, constructed, pos


def read_len(buf, pos):
    if pos >= len(buf):
        raise BadEncoding("eof in length")
    o = buf[pos]
    pos += 1
    if o < 128:
        return o, pos
    if o == 128:
        return None, pos
    n = o - 128
    v = 0
    for _ in range(n):
        if pos >= len(buf):
            raise BadEncoding("eof in length")
        v = v * 256 + buf[pos]
        pos += 1
    return v, pos


def read_tlv(buf, pos):
    """-> (cls, num, constructed, content_start, content_end, next_pos, indefinite)"""
    cls, num, constructed, p = read_ident(buf, pos)
    ln, p = read_len(buf, p)
    if ln is not None:
        if p + ln > len(buf):
            raise BadEncoding("content beyond end")
        return cls, num, constructed, p, p + ln, p + ln, False
    if not constructed:
        raise BadEncoding("indefinite primitive")
    q = p
    while True:
        if q + 1 < len(buf) + 0 and buf[q] == 0 and buf[q + 1] == 0:
            return cls, num, constructed, p, q, q + 2, True
        if q >= len(buf):
            raise BadEncoding("missing EOO")
        _c, _n, _k, _s, _e, q, _i = read_tlv(buf, q)


def _children(buf, start, end):
    out = []
    p = start
    while p < end:
        r = read_tlv(buf, p)
        out.append((p, r))
        p = r[5]
    if p != end:
        raise BadEncoding("children overrun")
    return out


def _string_octets(buf, r, frag_num):
    """Concatenate the primitive fragments of a (possibly nested) segmented string TLV."""
    cls, num, constructed, s, e, nxt, indef = r
    if not constructed:
        return [list(buf[s:e])]
    out = []
    for _p, c in _children(buf, s, e):
        if (c[0], c[1]) != ("U", frag_num):
            raise BadEncoding("fragment tag")
        out += _string_octets(buf, c, frag_num)
    return out


def dec_int(content):
    if len(content) == 0:
        raise BadEncoding("empty integer")
    v = 0
    for o in content:
        v = v * 256 + o
    if content[0] >= 128:
        v -= 256 ** len(content)
    return v


def dec_base128(content):
    out = []
    v = 0
    for i, o in enumerate(content):
        v = v * 128 + o % 128
        if o < 128:
            out.append(v)
            v = 0
        elif i == len(content) - 1:
            raise BadEncoding("truncated subidentifier")
    return out


def dec_oid(content):
    subs = dec_base128(content)
    if not subs:
        raise BadEncoding("empty oid")
    f = subs[0]
    if f < 40:
        head = (0, f)
    elif f < 80:
        head = (1, f - 40)
    else:
        head = (2, f - 80)
    return head + tuple(subs[1:])


def dec_real(content):
    from vfw.schema import norm_real

    if len(content) == 0:
        return ("R", 0, 0)
    f = content[0]
    if f == 0x40:
        return "inf"
    if f == 0x41:
        return "-inf"
    if f >= 128:
        sign = -1 if (f // 64) % 2 else 1
        base = {0: 2, 1: 8, 2: 16}[(f // 16) % 4]
        scale = (f // 4) % 4
        el = f % 4
        p = 1
        if el == 3:
            n = content[1]
            p = 2
        else:
            n = el + 1
        e = dec_int(content[p:p + n])
        m = 0
        for o in content[p + n:]:
            m = m * 256 + o
        m *= 2 ** scale
        if base == 8:
            e *= 3
        elif base == 16:
            e *= 4
        return norm_real(sign * m, e)
    raise BadEncoding("decimal real: not modelled")


def read(t, buf, pos=0):
    """Read one value of schema t from BER octets `buf` at pos -> (abstract value, next pos)."""
    tl = t.tag_list()
    k = t.kind
    # explicit wrappers
    wrappers = tl if k in ("CHOICE", "ANY") else tl[:-1]
    ends = []
    p = pos
    for (cls, num) in wrappers:
        r = read_tlv(buf, p)
        if (r[0], r[1]) != (cls, num) or not r[2]:
            raise BadEncoding("wrapper tag mismatch")
        ends.append(r)
        p = r[3]
    if k == "ANY":
        if ends:
            av = bytes(buf[ends[-1][3]:ends[-1][4]])
            nxt = ends[0][5]
            return av, nxt
        r = read_tlv(buf, p)
        return bytes(buf[p:r[5]]), r[5]
    if k == "CHOICE":
        r = read_tlv(buf, p)
        av = None
        for (name, ct, _m, _d) in t.comps:
            if _matches(ct, r):
                inner, q = read(ct, buf, p)
                av = (name, inner)
                break
        if av is None:
            raise BadEncoding("no alternative")
    else:
        own = tl[-1]
        r = read_tlv(buf, p)
        if (r[0], r[1]) != own:
            raise BadEncoding("tag mismatch: got %s want %s" % ((r[0], r[1]), own))
        av = _read_content(t, buf, r)
        q = r[5]
    # close wrappers
    for w in reversed(ends):
        if q != w[4]:
            raise BadEncoding("wrapper content length")
        q = w[5]
    return av, q


def _matches(ct, r):
    tl = ct.tag_list()
    if tl:
        return (r[0], r[1]) == tl[0]
    if ct.kind == "CHOICE":
        return any(_matches(c[1], r) for c in ct.comps)
    return ct.kind == "ANY"


def _read_content(t, buf, r):
    k = t.kind
    cls, num, constructed, s, e, nxt, indef = r
    if k in ("SEQ", "SET"):
        if not constructed:
            raise BadEncoding("primitive constructed type")
        out = {}
        kids = _children(buf, s, e)
        if k == "SEQ":
            i = 0
            for (name, ct, mode, dflt) in t.comps:
                if i < len(kids) and _matches(ct, kids[i][1]):
                    out[name], _ = read(ct, buf, kids[i][0])
                    i += 1
                elif mode == "req":
                    raise BadEncoding("missing " + name)
            if i != len(kids):
                raise BadEncoding("extra components")
        else:
            for p, kr in kids:
                hit = False
                for (name, ct, mode, dflt) in t.comps:
                    if name not in out and _matches(ct, kr):
                        out[name], _ = read(ct, buf, p)
                        hit = True
                        break
                if not hit:
                    raise BadEncoding("unexpected SET member")
            for (name, ct, mode, dflt) in t.comps:
                if mode == "req" and name not in out:
                    raise BadEncoding("missing " + name)
        return out
    if k in ("SEQOF", "SETOF"):
        if not constructed:
            raise BadEncoding("primitive constructed type")
        return [read(t.elem, buf, p)[0] for p, _ in _children(buf, s, e)]
    if k == "OCTS" or t.is_str:
        out = []
        for piece in _string_octets(buf, r, 4):
            out += piece
        return bytes(out)
    if k == "BITS":
        pieces = _string_octets(buf, r, 3)
        nbits = 0
        val = 0
        for i, piece in enumerate(pieces):
            if not piece:
                raise BadEncoding("empty bit string fragment")
            unused = piece[0]
            if unused > 7 or (unused and i != len(pieces) - 1):
                raise BadEncoding("unused bits")
            for o in piece[1:]:
                val = val * 256 + o
                nbits += 8
            if unused:
                if len(piece) < 2:
                    raise BadEncoding("unused bits in empty fragment")
                val //= 2 ** unused
                nbits -= unused
        return (nbits, val)
    if constructed:
        raise BadEncoding("constructed encoding of primitive type")
    content = list(buf[s:e])
    if k == "BOOL":
        if len(content) != 1:
            raise BadEncoding("boolean length")
        return content[0] != 0
    if k in ("INT", "ENUM"):
        return dec_int(content)
    if k == "NULL":
        if content:
            raise BadEncoding("null content")
        return None
    if k == "OID":
        return dec_oid(content)
    if k == "REAL":
        return dec_real(content)
    raise ValueError(k)


# ------------------------------------------------------------------ CER canonical-form rules


def cer_rules(t, buf):
    """Check X.690 clause 9 + 11 rules on a CER encoding.  Returns None or a description of the breach."""
    try:
        return _cer_walk(buf, 0, len(buf), top=True)
    except BadEncoding as e:
        return "unreadable: %s" % (e,)


def _cer_walk(buf, s, e, top=False):
    p = s
    while p < e:
        r = read_tlv(buf, p)
        cls, num, constructed, cs, ce, nxt, indef = r
        if constructed and not indef:
            return "constructed encoding with definite length at %d" % p
        if not constructed:
            if (cls, num) == ("U", 1) and buf[cs] not in (0, 255):
                return "BOOLEAN TRUE not FF at %d" % p
            if ce - cs > 1000 and (cls == "U" and num in (3, 4, 12, 18, 19, 20, 21, 22, 25, 26, 27, 28, 30)):
                return "primitive string longer than 1000 octets at %d" % p
        else:
            msg = _cer_walk(buf, cs, ce)
            if msg:
                return msg
        p = nxt
    return None
