#!/usr/bin/env python3
"""Validate a seeded change delivered by a sub-agent and, if it holds up, keep it under seeded/<name>/.

usage: python3 tools_seed_import.py <src_dir> <name>      (src_dir holds patch.diff, demo.py, meta.json)

Validation happens in a fresh scratch worktree of /repo's HEAD under /tmp (removed afterwards):
  1. the patch applies and touches only pyasn1/
  2. the repository's unedited test suite still passes with it (1149 passed)
  3. demo.py fails with the change and passes without it
Nothing is ever applied to /repo itself here.
"""
import json
import os
import re
import shutil
import subprocess
import sys
import tempfile

HERE = os.path.dirname(os.path.abspath(__file__))
REPO = "/repo"
PY = "/venv/bin/python"


def sh(cmd, cwd=None, env=None, timeout=1200):
    p = subprocess.run(cmd, shell=True, cwd=cwd, env=env, capture_output=True, text=True, timeout=timeout)
    return p.returncode, (p.stdout + p.stderr)


def main():
    src, name = sys.argv[1], sys.argv[2]
    patch = os.path.join(src, "patch.diff")
    demo = os.path.join(src, "demo.py")
    meta = json.load(open(os.path.join(src, "meta.json")))
    files = re.findall(r"^\+\+\+ b/(\S+)", open(patch).read(), re.M)
    if not files or any(not f.startswith("pyasn1/") for f in files):
        sys.exit("REJECT %s: patch touches %s" % (name, files))
    wt = tempfile.mkdtemp(prefix="seedval-", dir="/tmp")
    os.rmdir(wt)
    rc, out = sh("git -C %s worktree add -q --detach %s HEAD" % (REPO, wt))
    if rc:
        sys.exit("worktree: " + out)
    ran = []
    try:
        env = dict(os.environ, PYASN1_TREE=wt, PYTHONDONTWRITEBYTECODE="1")
        env.pop("PYTHONPATH", None)
        rc, out = sh("git apply %s" % os.path.abspath(patch), cwd=wt)
        if rc:
            sys.exit("REJECT %s: patch does not apply: %s" % (name, out[-300:]))
        rc, out = sh("%s -m pytest -q -p no:cacheprovider --timeout=900 -x" % PY, cwd=wt, env=env)
        tail = out.strip().splitlines()[-1] if out.strip() else ""
        ran.append("pytest with change: " + tail)
        if rc or "1149 passed" not in tail:
            sys.exit("REJECT %s: test suite with change: %s" % (name, tail))
        rc, out = sh("%s -c \"import pyasn1,sys; print(pyasn1.__file__)\"" % PY, cwd=wt, env=env)
        if wt not in out:
            sys.exit("REJECT %s: tests did not import the worktree (%s)" % (name, out.strip()))
        env = dict(env, PYTHONPATH=wt)  # demos import pyasn1 "from the current directory": make that hold for an absolute script path too
        rc1, out1 = sh("%s %s" % (PY, os.path.abspath(demo)), cwd=wt, env=env, timeout=600)
        ran.append("demo with change: exit %d: %s" % (rc1, out1.strip()[-300:]))
        if rc1 == 0:
            sys.exit("REJECT %s: demo passes with the change" % name)
        sh("git checkout -- .", cwd=wt)
        rc2, out2 = sh("%s %s" % (PY, os.path.abspath(demo)), cwd=wt, env=env, timeout=600)
        ran.append("demo without change: exit %d: %s" % (rc2, out2.strip()[-120:]))
        if rc2 != 0:
            sys.exit("REJECT %s: demo fails without the change: %s" % (name, out2[-300:]))
    finally:
        sh("git -C %s worktree remove --force %s" % (REPO, wt))
        shutil.rmtree(wt, ignore_errors=True)
    dst = os.path.join(HERE, "seeded", name)
    os.makedirs(dst, exist_ok=True)
    shutil.copy(patch, os.path.join(dst, "patch.diff"))
    shutil.copy(demo, os.path.join(dst, "demo.py"))
    out_meta = {
        "property": meta.get("property"),
        "what": meta.get("summary"),
        "needs_to_manifest": meta.get("needs_to_manifest"),
        "files_touched": files,
        "origin": "independent sub-agent given only the property text and a scratch worktree",
        "validated_by_us": ran,
    }
    json.dump(out_meta, open(os.path.join(dst, "meta.json"), "w"), indent=1)
    print("KEPT %s: %s" % (name, meta.get("summary")))


if __name__ == "__main__":
    main()
