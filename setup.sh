#!/bin/bash
# Offline: overlay venv on /venv (which has pyasn1 from /repo) + crosshair-tool from the wheelhouse.
set -e
HERE="$(cd "$(dirname "$0")" && pwd)"
cd "$HERE"
export PIP_NO_INDEX=1
if [ ! -x .venv/bin/python ] || ! .venv/bin/python -c "import crosshair, z3" 2>/dev/null; then
  rm -rf .venv
  /venv/bin/python -m venv .venv
  SP="$(.venv/bin/python -c 'import sysconfig; print(sysconfig.get_paths()["purelib"])')"
  echo "import site; site.addsitedir('/venv/lib/python3.12/site-packages')" > "$SP/_base_venv.pth"
  .venv/bin/pip install -q --no-index --find-links /opt/veriftools/wheels crosshair-tool
fi
.venv/bin/python -c "import crosshair, z3, pyasn1; print('crosshair', crosshair.__version__, 'z3', z3.get_version_string(), 'pyasn1 from', pyasn1.__file__)"
PYTHONPATH="$HERE" .venv/bin/python -m vfw.selftest
