#!/usr/bin/env python3
"""Regenerates MANIFEST.json from the property modules present under props/ (keeps it valid at all times)."""
import json
import os
import importlib
import sys

HERE = os.path.dirname(os.path.abspath(__file__))
sys.path.insert(0, HERE)
PROPS = [json.loads(l) for l in open(os.path.join(HERE, "properties.jsonl"))]
NA = json.load(open(os.path.join(HERE, "not_applicable.json")))
META = json.load(open(os.path.join(HERE, "claims.json")))

checks = []
na = []
for p in PROPS:
    pid = p["id"]
    if pid in META and os.path.exists(os.path.join(HERE, "props", pid + ".py")):
        m = META[pid]
        checks.append({
            "property_id": pid,
            "quick_cmd": "./check %s --tier quick" % pid,
            "thorough_cmd": "./check %s --tier thorough" % pid,
            "evidence_file": "evidence/%s.json" % pid,
            "replay_cmd_template": "./check %s --replay {path}" % pid,
            "engine": "vfw",
            "level_claimed": {"category": "model_checking", "text": m["text"], "design_ref": m.get("design_ref", "DESIGN.md section 6, " + pid)},
            "level_note": m["note"],
            "technique": m.get("technique", "bounded symbolic execution of pyasn1's real code (CrossHair state space + z3), counterexamples replayed on plain CPython"),
        })
    else:
        na.append({"property_id": pid, "reason": NA.get(pid, "check not built yet in this round (no obligation lands inside the time budget so far); to be claimed once props/%s.py exists" % pid)})

manifest = {
    "version": 1,
    "setup_cmd": "bash setup.sh",
    "hooks": {"guard": "PYASN1_VERIF", "enable": "none needed: all instrumentation is on the harness side (public options, stream doubles, namespace shims installed and removed inside a harness)",
              "baseline_off_cmd": "cd /repo && /venv/bin/python -m pytest -ra -q -p no:cacheprovider --timeout=900 --continue-on-collection-errors",
              "source_commits": [], "add_only": True},
    "engines": [{"name": "vfw", "path": "vfw/", "serves_properties": [c["property_id"] for c in checks],
                 "kind_free_text": "in-process driver over CrossHair 0.0.110's state space and z3 5.1 executing pyasn1's own modules symbolically; model extensions in vfw/plugin.py; concrete replayer vfw/replay.py"}],
    "checks": checks,
    "notes": "Solver-based checking of the real code. Every check: ./check <id> --tier quick|thorough. Known findings in known_findings.json; fix: commits in /repo are listed there as fixed entries. Sensitivity: 120 seeded changes under seeded/ (tools_seeded.py, results in seeded/RESULTS.md and DESIGN.md section 11). evidence/ holds the quick-tier evidence, evidence_thorough/ the thorough runs completed end to end.",
    "not_applicable": na,
}
json.dump(manifest, open(os.path.join(HERE, "MANIFEST.json"), "w"), indent=1)
print("MANIFEST: %d checks, %d not_applicable" % (len(checks), len(na)))
