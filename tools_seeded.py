#!/usr/bin/env python3
"""Sensitivity run: apply each seeded change under seeded/<name>/ to /repo, run the checks of its
property (and optionally others), undo the change, record which check caught it.

usage: python3 tools_seeded.py [name ...] [--tier quick|thorough] [--all-props]
Writes seeded/RESULTS.json and seeded/RESULTS.md.  /repo is restored (git checkout -- .) after every change,
also on error/interrupt.  Nothing is ever committed to /repo.
"""
import json
import os
import re
import subprocess
import sys
import time

HERE = os.path.dirname(os.path.abspath(__file__))
REPO = "/repo"


def sh(cmd, **kw):
    return subprocess.run(cmd, shell=True, capture_output=True, text=True, **kw)


def repo_clean():
    return sh("git -C %s status --porcelain --untracked-files=no" % REPO).stdout.strip() == ""


def run_check(prop, tier, only=None):
    cmd = "cd %s && ./check %s --tier %s --no-evidence%s" % (HERE, prop, tier, (" --only '%s'" % only) if only else "")
    t0 = time.time()
    p = sh(cmd)
    out = p.stdout
    viol = re.findall(r"^VIOLATION property=(\S+) replay=(\S+)\n\s+obligation=(\S+) args=(\{.*?\}) :: (.*)$", out, re.M)
    summary = [l for l in out.splitlines() if l.startswith(prop + " tier=")]
    return {"exit": p.returncode, "violations": [{"obligation": v[2], "args": v[3][:300], "detail": v[4][:300]} for v in viol[:5]],
            "n_violations": len(viol), "summary": summary[-1] if summary else out[-300:], "wall_s": round(time.time() - t0, 1)}


def main():
    args = [a for a in sys.argv[1:] if not a.startswith("--")]
    tier = "quick"
    if "--tier" in sys.argv:
        tier = sys.argv[sys.argv.index("--tier") + 1]
        args = [a for a in args if a != tier]
    names = args or sorted(d for d in os.listdir(os.path.join(HERE, "seeded")) if os.path.isdir(os.path.join(HERE, "seeded", d)))
    respath = os.path.join(HERE, "seeded", "RESULTS.json")
    results = json.load(open(respath)) if os.path.exists(respath) else {}
    if not repo_clean():
        sys.exit("refusing to run: /repo has uncommitted changes")
    for name in names:
        d = os.path.join(HERE, "seeded", name)
        meta = json.load(open(os.path.join(d, "meta.json")))
        patch = os.path.join(d, "patch.diff")
        props = [meta["property"]] + [p for p in meta.get("also_run", [])]
        entry = {"property": meta["property"], "what": meta.get("what", ""), "tier": tier, "checks": {}}
        try:
            a = sh("git -C %s apply %s" % (REPO, patch))
            if a.returncode != 0:
                entry["error"] = "patch does not apply: " + a.stderr[-200:]
            else:
                for p in props:
                    entry["checks"][p] = run_check(p, tier, meta.get("only", {}).get(p))
        finally:
            sh("git -C %s checkout -- ." % REPO)
        entry["caught_by"] = sorted(p for p, r in entry["checks"].items() if r["exit"] == 1 and r["n_violations"])
        results[name + "@" + tier] = entry
        json.dump(results, open(respath, "w"), indent=1)
        print(name, tier, "caught by", entry["caught_by"] or "NOTHING", {p: r["wall_s"] for p, r in entry["checks"].items()})
    assert repo_clean()
    # markdown table
    lines = ["| seeded change | property | tier | caught by | first counterexample |", "|---|---|---|---|---|"]
    for k in sorted(results):
        e = results[k]
        first = ""
        for p in e["caught_by"]:
            v = e["checks"][p]["violations"][0]
            first = "%s `%s` %s" % (p, v["obligation"], v["detail"][:110].replace("|", "/"))
            break
        lines.append("| %s | %s | %s | %s | %s |" % (k.split("@")[0], e["property"], e["tier"], ", ".join(e["caught_by"]) or "**missed**", first))
    open(os.path.join(HERE, "seeded", "RESULTS.md"), "w").write("\n".join(lines) + "\n")


if __name__ == "__main__":
    main()
