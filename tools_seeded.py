#!/usr/bin/env python3
"""Sensitivity run: for each seeded change under seeded/<name>/, run the checks of its property against
pyasn1 with the change applied, and record which check caught it.

usage: python3 tools_seeded.py [name ...] [--tier quick|thorough] [--scratch] [--jobs N] [--also C03,C09]

default mode : the patch is applied to /repo itself (git -C /repo apply), the checks run, and /repo is
               restored straight afterwards (git checkout -- .), also on error/interrupt.
--scratch    : the patch is applied to a throw-away worktree of /repo's HEAD under /tmp and the checks
               import pyasn1 from there (PYTHONPATH); /repo is not touched, so this can run while other
               checks use /repo.  The worktree is removed afterwards.
Writes seeded/RESULTS.json and seeded/RESULTS.md.  Nothing is ever committed to /repo.
"""
import json
import os
import re
import shutil
import subprocess
import sys
import tempfile
import time

HERE = os.path.dirname(os.path.abspath(__file__))
REPO = "/repo"


def sh(cmd, **kw):
    return subprocess.run(cmd, shell=True, capture_output=True, text=True, **kw)


def repo_clean():
    return sh("git -C %s status --porcelain --untracked-files=no" % REPO).stdout.strip() == ""


def run_check(prop, tier, only=None, tree=None, jobs=16):
    env = dict(os.environ)
    if tree:
        env["PYTHONPATH"] = tree
    cmd = "cd %s && ./check %s --tier %s --no-evidence --fail-fast --jobs %d%s" % (HERE, prop, tier, jobs, (" --only '%s'" % only) if only else "")
    t0 = time.time()
    p = sh(cmd, env=env)
    out = p.stdout
    viol = re.findall(r"^VIOLATION property=(\S+) replay=(\S+)\n\s+obligation=(\S+) args=(\{.*?\}) :: (.*)$", out, re.M)
    summary = [l for l in out.splitlines() if l.startswith(prop + " tier=")]
    return {"exit": p.returncode, "violations": [{"obligation": v[2], "args": v[3][:300], "detail": v[4][:300]} for v in viol[:5]],
            "n_violations": len(viol), "violated_obligations": sorted(set(v[2] for v in viol))[:12],
            "summary": summary[-1] if summary else out[-300:], "wall_s": round(time.time() - t0, 1)}


def main():
    argv = sys.argv[1:]
    tier, jobs, also = "quick", 16, []
    scratch = "--scratch" in argv
    names = []
    i = 0
    while i < len(argv):
        a = argv[i]
        if a == "--tier":
            tier = argv[i + 1]; i += 2; continue
        if a == "--jobs":
            jobs = int(argv[i + 1]); i += 2; continue
        if a == "--also":
            also = argv[i + 1].split(","); i += 2; continue
        if not a.startswith("--"):
            names.append(a)
        i += 1
    names = names or sorted(d for d in os.listdir(os.path.join(HERE, "seeded")) if os.path.isdir(os.path.join(HERE, "seeded", d)))
    respath = os.path.join(HERE, "seeded", "RESULTS.json")
    if not scratch and not repo_clean():
        sys.exit("refusing to run: /repo has uncommitted changes")
    for name in names:
        d = os.path.join(HERE, "seeded", name)
        meta = json.load(open(os.path.join(d, "meta.json")))
        patch = os.path.join(d, "patch.diff")
        props = [meta["property"]] + [p for p in meta.get("also_run", []) + also if p != meta["property"]]
        entry = {"property": meta["property"], "what": meta.get("what", ""), "tier": tier, "checks": {},
                 "mode": "scratch worktree" if scratch else "applied to /repo"}
        tree = None
        try:
            if scratch:
                tree = tempfile.mkdtemp(prefix="seedrun-", dir="/tmp")
                os.rmdir(tree)
                sh("git -C %s worktree add -q --detach %s HEAD" % (REPO, tree))
                a = sh("git -C %s apply %s" % (tree, patch))
            else:
                a = sh("git -C %s apply %s" % (REPO, patch))
            if a.returncode != 0:
                entry["error"] = "patch does not apply: " + a.stderr[-200:]
            else:
                for p in props:
                    entry["checks"][p] = run_check(p, tier, meta.get("only", {}).get(p), tree=tree, jobs=jobs)
        finally:
            if scratch:
                sh("git -C %s worktree remove --force %s" % (REPO, tree))
                shutil.rmtree(tree, ignore_errors=True)
            else:
                sh("git -C %s checkout -- ." % REPO)
        entry["caught_by"] = sorted(p for p, r in entry["checks"].items() if r["exit"] == 1 and r["n_violations"])
        results = json.load(open(respath)) if os.path.exists(respath) else {}
        results[name + "@" + tier] = entry
        json.dump(results, open(respath, "w"), indent=1, sort_keys=True)
        print(name, tier, "caught by", entry["caught_by"] or "NOTHING", {p: r["wall_s"] for p, r in entry["checks"].items()}, flush=True)
    if not scratch:
        assert repo_clean()
    write_md(respath)


def write_md(respath):
    results = json.load(open(respath))
    lines = ["| seeded change | property | what it changes | tier | caught by | first counterexample |", "|---|---|---|---|---|---|"]
    for k in sorted(results):
        e = results[k]
        first = ""
        for p in e["caught_by"]:
            v = e["checks"][p]["violations"][0]
            first = "%s `%s` %s" % (p, v["obligation"], v["detail"][:110].replace("|", "/"))
            break
        lines.append("| %s | %s | %s | %s | %s | %s |" % (k.split("@")[0], e["property"], (e.get("what") or "")[:120].replace("|", "/"), e["tier"],
                                                        ", ".join(e["caught_by"]) or "**missed**", first))
    open(os.path.join(os.path.dirname(respath), "RESULTS.md"), "w").write("\n".join(lines) + "\n")


if __name__ == "__main__":
    main()
